"""props.py — property -> scenarios, budgets, evidence texts. Extended as scenarios land."""

COMMON_ASSUME = [
    "x86-TSO is the only hardware memory model simulated (store buffering of atomic stores); weaker reorderings and compiler reordering across cmm_barrier() are not modelled",
    "single-instruction atomicity and fencing of the x86 locked instructions and mfence are axioms of the simulator",
    "a clean batch is evidence from seeded sampling of schedules and faults, not proof",
    "workloads stay inside the documented API contracts (DESIGN.md 2.15)",
]

PROPS = {
    "C01": {
        "level": "exploration",
        "scenarios": {"gp": {"quick": 160000, "quick_time": 150, "thorough": 6000000, "thorough_time": 900}},
        "rule": "one evaluation = one seeded simulated execution (generated reader/updater program on a seed-chosen flavor, "
                "membarrier mode, knobs, SC or TSO, scheduling strategy). Non-trivial = at least one read-side critical section "
                "was open while some synchronize_rcu() caller was waiting; distinct = distinct 64-bit fingerprints of the event log "
                "(API events, context switches, faults) among the non-trivial runs that completed.",
        "assumptions": COMMON_ASSUME,
        "expect_probes": ["os.membarrier", "os.futex_wait_blocked", "tso.forwarded_load"],
    },
    "C02": {
        "level": "exploration",
        "scenarios": {"gp_live": {"quick": 160000, "quick_time": 150, "thorough": 6000000, "thorough_time": 900}},
        "rule": "one evaluation = one seeded simulated execution of readers/updaters with small spin-attempt knobs so the futex path is common, "
                "with injected futex/poll faults (spurious return, EINTR, per-call ENOSYS on FUTEX_WAIT, whole-run ENOSYS fallback). "
                "Oracles: deadlock detector at any time; after every script issued its last operation faults stop and every call must "
                "return within the quiet-phase budget. Non-trivial = a grace period overlapped a critical section; distinct = distinct "
                "event-log fingerprints among those.",
        "assumptions": COMMON_ASSUME + ["liveness is bounded: 400000 scheduler steps / 60 simulated seconds after the last operation is issued, "
                                        "with fair scheduling and eventual store propagation in that phase"],
        "expect_probes": ["os.futex_wait_blocked", "os.futex_wait_eagain", "os.futex_wake_nobody", "futex_wait_spurious", "futex_wait_eintr", "os.futex_enosys", "poll_eintr"],
    },
}

PROPS["C03"] = {
    "level": "exploration",
    "scenarios": {"callrcu": {"quick": 100000, "quick_time": 150, "thorough": 4000000, "thorough_time": 900}},
    "rule": "one evaluation = one seeded simulated execution of 1-5 threads mixing call_rcu() (plain, self-freeing, re-enqueueing up to 2 deep, "
            "reclaiming an unpublished object), read-side sections, per-thread helpers (futex-woken or RT polling) created and freed with callbacks pending, "
            "per-CPU helpers on 1/2/4 simulated CPUs with migrating sched_getcpu, free_all_cpu_call_rcu_data and single per-CPU teardown, then three rcu_barrier() calls. "
            "Oracles: exactly-once per rcu_head with the registered pointer, callback entry not before every section that began before call_rcu() ended, tracked-arena use-after-free. "
            "Non-trivial = some callback's grace period overlapped an open section or some barrier covered a pending callback; distinct = distinct event-log fingerprints.",
    "assumptions": COMMON_ASSUME + ["qsbr: call_rcu_data_free()/free_all_cpu_call_rcu_data() are issued from an offline thread (they wait for a helper that may be inside synchronize_rcu())"],
    "expect_probes": ["os.futex_wait_blocked", "getcpu_migrate", "os.futex_enosys", "callrcu.run_with_callbacks"],
}
PROPS["C04"] = {
    "level": "exploration",
    "scenarios": {"barrier": {"quick": 100000, "quick_time": 150, "thorough": 4000000, "thorough_time": 900}},
    "rule": "same generator as C03 weighted towards concurrent rcu_barrier() callers (qsbr: online and offline), with helper creation/destruction in flight. "
            "Oracle at every rcu_barrier() return: every callback whose call_rcu() had returned before the barrier was entered has finished executing; deadlock detector and quiet-phase bound for termination. "
            "Non-trivial = a barrier returned after waiting for at least one callback that finished during the call; distinct = distinct event-log fingerprints.",
    "assumptions": COMMON_ASSUME,
    "expect_probes": ["os.futex_wait_blocked", "callrcu.run_with_callbacks"],
}
PROPS["C14"] = {
    "level": "exploration",
    "scenarios": {"poll": {"quick": 100000, "quick_time": 150, "thorough": 4000000, "thorough_time": 900}},
    "rule": "one evaluation = one seeded simulated execution in which several threads take start_poll_synchronize_rcu() handles at arbitrary points of in-flight grace periods and poll them, "
            "next to readers, updaters and call_rcu() users. Oracles: a true poll implies every section begun before that start_poll call has ended; once true never false again; every handle becomes true within the quiet-phase bound. "
            "Non-trivial = a handle's wait overlapped an open section; distinct = distinct event-log fingerprints.",
    "assumptions": COMMON_ASSUME,
    "expect_probes": ["os.futex_wait_blocked"],
}

PROPS["C13"] = {
    "level": "exploration",
    "scenarios": {"defer": {"quick": 120000, "quick_time": 150, "thorough": 5000000, "thorough_time": 900}},
    "rule": "one evaluation = one seeded simulated execution of 1-4 threads registered for defer_rcu() queuing (function, argument) pairs with adversarial bit patterns "
            "(NULL, 1, -1, the internal marker value -2, -3, odd values, a function at an odd address), bursts that wrap and fill a 8/16/32-entry queue (knob), "
            "explicit rcu_defer_barrier()/rcu_defer_barrier_thread(), unregister + re-register, readers of an object reclaimed through defer_rcu(), and threads that stop calling the API and wait for the background reclaimer. "
            "Oracles: per-thread invoked sequence equals queued sequence with exact arguments; interval oracle per call; barrier/unregister inclusion; reclaimer liveness within the quiet-phase bound; tracked-arena use-after-free. "
            "Non-trivial = a deferred call's grace period overlapped an open section; distinct = distinct event-log fingerprints.",
    "assumptions": COMMON_ASSUME + ["qsbr: the defer API is used from offline threads (an online qsbr thread counts as inside a read-side critical section, where defer_rcu() is forbidden)",
                                    "function value equal to the internal marker (-2) is not generated: calling it would crash by definition"],
    "expect_probes": ["defer.reclaimer_ran_everything", "defer.run_with_calls", "os.futex_wait_blocked"],
}

PROPS["C10"] = {
    "level": "exploration",
    "scenarios": {"wfcq": {"quick": 160000, "quick_time": 150, "thorough": 8000000, "thorough_time": 900}},
    "rule": "one evaluation = one seeded simulated execution of 2-4 threads on two cds_wfcq queues (or the legacy cds_wfq): enqueue, blocking / with_state / non-blocking dequeue, empty(), "
            "splice in both directions (blocking and non-blocking), first/next iteration, in the locked multi-consumer or the lock-free single-consumer scheme; dequeued nodes are freed at once (tracked arena). "
            "Oracle: exact WGL linearizability check of the recorded history (<= 30 ops) against a FIFO model in which enqueue reports was-non-empty, splice is drain-then-append inside its call, "
            "iteration equals the content at one instant, plus a final iteration of both queues (conservation and order). Non-trivial = operations of different threads overlap; distinct = distinct event-log fingerprints.",
    "assumptions": COMMON_ASSUME + ["WOULDBLOCK results are treated as no-ops here; their legality is checked under C17"],
    "expect_probes": ["wfcq.splice", "wfcq.dequeue_wouldblock", "wfcq.iter_wouldblock", "wfcq.splice_wouldblock", "sched.stall_victim_frozen"],
}
PROPS["C11"] = {
    "level": "exploration",
    "scenarios": {"stacks": {"quick": 160000, "quick_time": 150, "thorough": 8000000, "thorough_time": 900}},
    "rule": "one evaluation = one seeded simulated execution of 2-4 threads on a cds_wfs, cds_lfs or legacy cds_lfs_rcu stack: push, pop (blocking, with_state, non-blocking), pop_all + iteration, empty(), "
            "pop-then-re-push of the same node, under the mutex-protected, single-consumer or RCU-protected scheme (any flavor; nodes freed or re-pushed only after synchronize_rcu()). "
            "Oracle: exact WGL check against a LIFO model (push reports was-non-empty, LAST state, pop_all returns the whole content in LIFO order) plus a final pop_all (conservation); tracked-arena use-after-free. "
            "Non-trivial = operations of different threads overlap; distinct = distinct event-log fingerprints.",
    "assumptions": COMMON_ASSUME,
    "expect_probes": ["stack.node_recycled", "stack.pop_wouldblock", "sched.stall_victim_frozen"],
}
PROPS["C12"] = {
    "level": "exploration",
    "scenarios": {"lfq": {"quick": 110000, "quick_time": 150, "thorough": 6000000, "thorough_time": 900}},
    "rule": "one evaluation = one seeded simulated execution of 2-4 threads enqueueing and dequeueing a cds_lfq queue inside read-side sections of a seed-chosen flavor; dequeued nodes are freed through call_rcu, "
            "freed after synchronize_rcu() or re-enqueued after a grace period. Oracles: exact WGL check against a FIFO model (NULL only if empty at some instant), returned nodes are user nodes, "
            "dummy nodes go through the tracked allocator (early reclamation = use-after-free report), cds_lfq_destroy_rcu at quiescence succeeds iff empty. "
            "Non-trivial = operations of different threads overlap; distinct = distinct event-log fingerprints.",
    "assumptions": COMMON_ASSUME,
    "expect_probes": ["lfq.node_recycled", "os.futex_wait_blocked"],
}

_LFHT_COMMON = ("2-5 threads on a cds_lfht bound to a seed-chosen flavor; table init 1/2/4, min_alloc 1/2, max 4..64 (512 for the mmap large-table path), flags 0/AUTO_RESIZE/ACCOUNTING/both, "
                "allocators order/chunk/mmap/default and a counting custom cds_lfht_alloc; up to 3 active keys plus up to 2 resident keys whose hashes come from an adversarial pool "
                "(0, ~0, top bit, equal modulo every small size, different keys with the same hash); partitioned resize threads enabled through the MIN_PARTITION knob; COUNT_COMMIT knob 1-2. ")
PROPS["C05"] = {
    "level": "exploration",
    "scenarios": {"lfht_lin": {"quick": 100000, "quick_time": 150, "thorough": 4000000, "thorough_time": 1200}},
    "rule": "one evaluation = one seeded simulated execution: " + _LFHT_COMMON +
            "Operations add/add_unique/add_replace/replace/del/lookup/duplicate walk/full traversal inside read-side sections, optional explicit resizer thread, lazy resizes. "
            "Oracles: exact WGL check per key against a multiset-per-key model (non-deterministic results are relations); presence oracle on every walk/traversal "
            "(visited nodes were present at some instant, nodes present throughout are visited, none twice); resident keys never absent; conservation and count_nodes at quiescence; tracked-arena use-after-free. "
            "Non-trivial = operations of different threads on one key overlap; distinct = distinct event-log fingerprints.",
    "assumptions": COMMON_ASSUME + ["hash-table operations are issued inside read-side sections of registered threads; removed nodes are reclaimed by their single owner after a grace period; cds_lfht_resize() is called outside sections (API contract)"],
    "expect_probes": ["lfht.resize_returned", "os.futex_wait_blocked", "getcpu_migrate"],
}
PROPS["C06"] = {
    "level": "exploration",
    "scenarios": {"lfht_unique": {"quick": 100000, "quick_time": 150, "thorough": 4000000, "thorough_time": 1200}},
    "rule": "one evaluation = one seeded simulated execution: " + _LFHT_COMMON +
            "Every key is touched only by add_unique/add_replace/replace/del while readers run lookup+next_duplicate walks and first/next traversals, with concurrent resizes. "
            "Oracles: no walk or traversal ever returns two nodes of one key; WGL per key decides that exactly one concurrent add_unique wins and the others return a node present during their call, "
            "that a continuously present key is never reported absent, and that each replaced node is handed to exactly one caller. "
            "Non-trivial = operations of different threads on one key overlap; distinct = distinct event-log fingerprints.",
    "assumptions": COMMON_ASSUME + ["hash-table operations are issued inside read-side sections of registered threads; removed nodes are reclaimed by their single owner after a grace period; cds_lfht_resize() is called outside sections (API contract)"],
    "expect_probes": ["lfht.resize_returned"],
}
PROPS["C07"] = {
    "level": "exploration",
    "scenarios": {"lfht_owner": {"quick": 100000, "quick_time": 150, "thorough": 4000000, "thorough_time": 1200}},
    "rule": "one evaluation = one seeded simulated execution: " + _LFHT_COMMON +
            "Threads aim del/replace/add_replace at the same nodes (lookup, pause, then remove) while others add, look up, traverse and resize in the same bucket. "
            "Oracles: each node is obtained by exactly one call (two owners = immediate report; WGL set model makes every other del/replace fail); the owner frees the node through call_rcu or synchronize_rcu()+free "
            "into a never-reused quarantine so any later access by any thread is reported; same for bucket memory released by shrink (tracked free / PROT_NONE for mmap) and the table after destroy. "
            "Non-trivial = operations of different threads on one key overlap; distinct = distinct event-log fingerprints.",
    "assumptions": COMMON_ASSUME + ["hash-table operations are issued inside read-side sections of registered threads; removed nodes are reclaimed by their single owner after a grace period; cds_lfht_resize() is called outside sections (API contract)"],
    "expect_probes": ["lfht.resize_returned"],
}
PROPS["C09"] = {
    "level": "exploration",
    "scenarios": {"lfht_resize": {"quick": 80000, "quick_time": 150, "thorough": 3000000, "thorough_time": 1200}},
    "rule": "one evaluation = one seeded simulated execution: " + _LFHT_COMMON +
            "One or two resizer threads request sizes from {0, 1, powers of two, 3/5/6/7/12, > max, ULONG_MAX, 2^40+1} while others update and look up; lazy resizes by chain length and node counter; "
            "pthread_create EAGAIN in the partitioned helper and work-item allocation failure injected; destroy with resizes still queued. "
            "Oracles: every cds_lfht_resize() returns (deadlock detector, bounded progress under fair scheduling), resident keys found by every lookup during and after, WGL per key, "
            "custom allocator never asked for more buckets than max_nr_buckets, discarded bucket memory never touched (quarantine / PROT_NONE), destroy of the emptied table returns 0 and the deferred teardown touches no freed memory. "
            "Non-trivial = operations of different threads on one key overlap; distinct = distinct event-log fingerprints.",
    "assumptions": COMMON_ASSUME + ["hash-table operations are issued inside read-side sections of registered threads; removed nodes are reclaimed by their single owner after a grace period; cds_lfht_resize() is called outside sections (API contract)"] + ["the 1 <= buckets <= max bound is observed through allocator arguments and bucket memory accesses (the size field is private)"],
    "expect_probes": ["lfht.resize_returned", "pthread_create_eagain", "getcpu_migrate"],
}

PROPS["C08"] = {
    "level": "exploration",
    "scenarios": {"lfht_seq": {"quick": 80000, "quick_time": 150, "thorough": 3000000, "thorough_time": 1200}},
    "rule": "one evaluation = one seeded sequence of 5-60 cds_lfht operations (add, add_unique, add_replace, replace incl. -EINVAL and -ENOENT cases, del incl. double del, lookup, duplicate walk, first/next, "
            "count_nodes, resize to 0/1/powers of two/non powers/above max/ULONG_MAX, destroy) on 8 keys with adversarial hashes, issued one at a time by 1-2 application threads taking turns, over "
            "init 1..32, min_alloc 1..16 (incl. min > init), max 1..64/512/1024/0 (incl. max < init), all flag sets, order/chunk/mmap/default allocators, every flavor. After every operation the result is compared with a reference multimap "
            "(duplicate results as relations). The schedule dimension is the library's own threads (resize worker, partition threads, call_rcu helper) with getcpu migration; runs without AUTO_RESIZE are plain seeded model-based tests inside the harness. "
            "Non-trivial = library threads ran next to the application thread; distinct = distinct event-log fingerprints.",
    "assumptions": COMMON_ASSUME + ["on an unbounded table (max_nr_buckets 0) explicit resize requests are kept <= 128 buckets: the library really tries to reach any requested size"],
    "expect_probes": ["os.futex_wait_blocked", "getcpu_migrate"],
}

PROPS["C15"] = {
    "level": "exploration",
    "scenarios": {"registry": {"quick": 80000, "quick_time": 150, "thorough": 5000000, "thorough_time": 900}},
    "rule": "one evaluation = one seeded simulated execution of 2-8 threads. memb/mb/qsbr: register/unregister churn (40% of the non-read operations) against both scanning phases of concurrent synchronize_rcu() callers, "
            "checked with the C01 interval/litmus/reclamation oracles (a registered thread is never skipped) and the C02 deadlock/bounded-progress oracles (a thread that left is never waited for). "
            "bp: threads register on first read-side use and unregister in the key destructor at exit; INIT_READER_COUNT knob 1/2/8 so the registry grows past its initial and doubled capacity, "
            "mremap in-place success or failure (new chunk) chosen by the seed; a read-side signal handler is delivered at a seed-chosen access of the thread (first-use registration, ordinary code, thread exit); "
            "a second wave of threads after everybody exited must reuse slots (no new mapping request). Non-trivial = a grace period overlapped a critical section; distinct = distinct event-log fingerprints.",
    "assumptions": COMMON_ASSUME,
    "expect_probes": ["registry.handler_runs", "signal.deferred_by_mask", "os.mremap_inplace", "os.mremap_failed", "signal_delivered"],
}

PROPS["C18"] = {
    "level": "exploration",
    "scenarios": {"rculist": {"quick": 160000, "quick_time": 150, "thorough": 8000000, "thorough_time": 900}},
    "rule": "one evaluation = one seeded simulated execution: 1-2 updaters (mutually excluded by a simulated mutex) apply cds_list_add_rcu/add_tail_rcu/del_rcu/replace_rcu or cds_hlist add_head/del to fully initialised nodes and free removed nodes a grace period later "
            "(call_rcu or synchronize_rcu()+free into the quarantine), while 1-3 readers traverse inside read-side sections; preemption is possible at every individual pointer store of the updater (plain stores are instrumented) and stores may be TSO-delayed. "
            "Oracles: traversal terminates; no node twice; every node whose add (incl. lock release) returned before the traversal began and whose removal started after it ended is visited, in list order; visited nodes were in the list at some instant; payload intact; quarantine use-after-free. "
            "Non-trivial = every run (updates and traversals overlap by construction); distinct = distinct event-log fingerprints.",
    "assumptions": COMMON_ASSUME + ["an update counts as completed for the oracle once the updater has released its lock (a full barrier): a store may sit in the x86 store buffer after the list primitive itself returns"],
    "expect_probes": ["os.futex_wait_blocked"],
}
PROPS["C19"] = {
    "level": "exploration",
    "scenarios": {"signals": {"quick": 130000, "quick_time": 150, "thorough": 6000000, "thorough_time": 900}},
    "rule": "one evaluation = one seeded simulated execution on memb, mb or bp: 1-4 threads run read sections (nesting 1-3), synchronize_rcu(), call_rcu() and updates while up to 3 signals per thread are delivered at seed-chosen memory accesses of the victim "
            "(any instrumented access, atomic, fence or system call in library or application code: inside rcu_read_lock/unlock, synchronize_rcu(), call_rcu(), bp auto-registration subject to the simulated mask), nested up to depth 2. "
            "The handler records rcu_read_ongoing(), runs a read-side section dereferencing the shared object, and compares. Oracles: state restored; handler sections and interrupted sections both take part in the C01 interval and reclamation oracles; deadlock detector. "
            "memb/mb: signals are blocked before rcu_unregister_thread() (README contract); qsbr excluded. Non-trivial = a grace period overlapped a section; distinct = distinct event-log fingerprints.",
    "assumptions": COMMON_ASSUME + ["the simulated handler preserves errno, as POSIX requires of handlers"],
    "expect_probes": ["signals.handler", "signals.nested_handler", "signal.deferred_by_mask"],
}

PROPS["C16"] = {
    "level": "exploration",
    "scenarios": {"fork": {"quick": 48000, "quick_time": 150, "thorough": 4000000, "thorough_time": 900}},
    "rule": "one evaluation = one seeded simulated execution containing one REAL fork(): the forking thread runs a generated prefix (call_rcu on default / per-thread / per-CPU helpers incl. RT ones, read sections, synchronize_rcu, rcu_barrier, "
            "an AUTO_RESIZE hash table with queued resize work), forks at a seed-chosen position bracketed by call_rcu_before_fork / [bp: urcu_bp_before_fork] ... and the matching after_fork handlers, with helper threads sleeping, polling or mid-batch; "
            "bp additionally with 0-3 other reader threads registering, inside sections or exiting at fork time; optionally another application thread that owns and destroys a call_rcu helper, and another one (never a reader) that creates the process's first AUTO_RESIZE table (work queue, worker, atfork registration) around fork time. The child (only the forking thread exists; simulated helper threads are gone, their mutexes/futexes inherited as they were) immediately runs a read section, "
            "synchronize_rcu(), call_rcu()+rcu_barrier(), builds/resizes/destroys a resizable hash table and waits until the resize worker has released the destroyed table (the deferred teardown must run in the child too); the parent continues and runs rcu_barrier(). Oracles per process: termination (deadlock detector + bounded progress), "
            "every callback queued before the fork runs exactly once in the parent and exactly once in the child, C01 interval oracle (sections of vanished threads are over in the child), tracked-arena use-after-free. "
            "Non-trivial = the fork happened with both processes completing; distinct = distinct event-log fingerprints.",
    "assumptions": COMMON_ASSUME + ["handler order used: call_rcu_before_fork, urcu_bp_before_fork, fork, urcu_bp_after_fork_*, call_rcu_after_fork_* (the only order that cannot self-deadlock: helpers need the bp locks to reach their pause point)",
                                    "qsbr: the handlers are called from an offline thread (they wait for helper threads that may be inside synchronize_rcu())",
                                    "non-bp flavors: no application thread besides the forking one is registered at fork time (documented requirement)",
                                    "counters of the forked child (faults, probes) are not merged into the evidence; its violations are"],
    "expect_probes": ["os.fork", "fork.parent_continues"],
}

PROPS["C17"] = {
    "level": "exploration",
    "scenarios": {"progress": {"quick": 150000, "quick_time": 150, "thorough": 8000000, "thorough_time": 900}},
    "rule": "one evaluation = one seeded simulated execution on one structure (wfcqueue, wfstack, lfstack, rculfqueue, rculfhash, read-side of a seed-chosen flavor): 2-4 threads run a random prefix; "
            "about a third of the operations are executed SOLO: the issuing thread freezes every other simulated thread exactly where it stands (store buffers drained first) - between the tail exchange and the link store of an enqueue, "
            "between head exchange and next store of a push, after a logical delete and before its unlink, in the middle of a resize, inside synchronize_rcu() holding locks - runs the operation alone and is measured. "
            "Oracles: documented wait-free operations (wfcq enqueue, wfs push, pop_all, lfht lookup/traversal, read lock/unlock of a registered thread, qsbr quiescent state) and lock-free ones (lfs push/pop, lfq enqueue/dequeue, lfht add/add_unique/add_replace/del) "
            "finish with zero cpu_relax events, zero blocking events and <= 6000 own steps; *_nonblocking variants never wait and return WOULDBLOCK only while some other thread is inside an operation; after the thaw the structure passes a conservation check. "
            "Non-trivial = every run has solo-measured operations; distinct = distinct event-log fingerprints.",
    "assumptions": COMMON_ASSUME + ["malloc/free inside cds_lfq_dequeue_rcu and the futex wake in call_rcu() are treated as non-blocking primitives; call_rcu()'s one-time creation of its default helper (a mutex) is done before anything is measured",
                                    "'another operation in progress' is over-approximated by a per-thread flag set around the whole harness-level operation (the WOULDBLOCK rule is therefore checked in its weakest form)"],
    "expect_probes": ["progress.solo_waitfree_op", "progress.solo_lockfree_op", "progress.solo_while_others_mid_op", "progress.wouldblock_seen"],
}
PROPS["C20"] = {
    "level": "exploration",
    "scenarios": {"uatomic": {"quick": 160000, "quick_time": 150, "thorough": 8000000, "thorough_time": 900}},
    "rule": "one evaluation = one seeded simulated execution against the default x86 implementation or the CONFIG_RCU_USE_ATOMIC_BUILTINS implementation (both compiled from /repo): "
            "(a) 2-4 threads apply add/sub/inc/dec/add_return/sub_return/cmpxchg-increment/or/and/xchg to 1-, 2-, 4- and 8-byte cells at odd offsets packed between bytes owned and rewritten by other threads, with a context switch possible at every access: "
            "final values must equal the truncated sums, per-thread bits and xchg tokens conserved, neighbours intact; "
            "(b) store-buffering litmus under simulated x86-TSO with each documented full-barrier operation (cmm_smp_mb, xchg, successful cmpxchg, add_return, sub_return, store with CMM_SEQ_CST / CMM_SEQ_CST_FENCE) between store and load: both-zero never; without a barrier it must occur (probe); message-passing litmus; "
            "(c) sequential value semantics of every operation for signed/unsigned char/short/int/long on operands at width and sign boundaries against a plain C reference with guard words around the cell - this slice is ordinary seeded differential testing riding in the harness; "
            "(d) the same value-semantics sweep in two ordinary optimised builds without hooks or instrumentation (default x86 and builtins), on cells initialised by a plain assignment in the same function: what the compiler makes of the shipped inline assembly next to ordinary code (counted in the assumptions note, not in evaluations). "
            "Non-trivial = every run (concurrent RMW on shared cells); distinct = distinct event-log fingerprints.",
    "assumptions": COMMON_ASSUME + ["atomicity and barrier strength of one machine instruction (lock prefix, xchg, mfence, asm clobbers) are axioms of the simulator and are NOT tested; what is tested is the C-level macro layer: operand widths, casts, retry loops, which primitive is selected, where fences are emitted"],
    "expect_probes": ["uatomic.sb_both_zero_without_barrier", "uatomic.sb_litmus_ran"],
    "native_stage": True,
}

NOT_APPLICABLE = {}

_SIM_NOTE = ("Trusted base: the usim runtime (scheduler, TSO model, simulated OS, tracked arena), gcc's access instrumentation, "
             "the URCU_VERIF hooks in /repo, and the scenario generators/oracles in /verif/scen. Sampling, not enumeration.")

MANIFEST_TEXT = {
    "C01": {"design_ref": "3.1",
            "level_text": "Seeded exploration of reader/updater/synchronize_rcu interleavings and TSO store-buffer delays on all four flavors and three membarrier modes; "
                          "every synchronize_rcu() return is checked against every critical section that began before the call (interval oracle), plus x/y litmus and use-after-reclaim through the tracked arena. "
                          "Exploration is the right level: the property quantifies over schedules of real library code with helper state, which only execution under a controlled scheduler reaches.",
            "level_note": _SIM_NOTE},
    "C02": {"design_ref": "3.2",
            "level_text": "Seeded exploration with futex/poll fault injection and the ENOSYS fallback; a lost wake-up or deadlock is the scheduler's no-runnable-thread condition, and bounded progress is required once faults stop.",
            "level_note": _SIM_NOTE + " Liveness is checked as bounded progress (400000 steps / 60 simulated s) under a fair scheduler after the last operation is issued."},
    "C03": {"design_ref": "3.3",
            "level_text": "Seeded exploration over helper assignments (default, per-thread, per-CPU, RT or futex-woken), teardown with pending callbacks, re-enqueueing callbacks, futex/poll/getcpu faults; exactly-once and grace-period interval oracles on every callback.",
            "level_note": _SIM_NOTE},
    "C04": {"design_ref": "3.4",
            "level_text": "Seeded exploration of concurrent call_rcu()/rcu_barrier() callers and helper churn; set-inclusion oracle at every barrier return plus deadlock/bounded-progress detection.",
            "level_note": _SIM_NOTE},
    "C14": {"design_ref": "3.14",
            "level_text": "Seeded exploration of handles taken at arbitrary points of in-flight grace periods; interval oracle on every true poll, monotonicity, bounded eventual completion.",
            "level_note": _SIM_NOTE},
    "C13": {"design_ref": "3.13",
            "level_text": "Seeded exploration of queuing threads, the reclaimer thread, barriers and (un)registration with adversarial function/argument encodings and small queue sizes; sequence-equality, interval and inclusion oracles.",
            "level_note": _SIM_NOTE},
    "C10": {"design_ref": "3.10",
            "level_text": "Seeded exploration of enqueuers (including ones suspended between the tail exchange and the link store), dequeuers, splicers and iterators under SC and simulated TSO; every history is decided exactly by a WGL linearizability checker against a FIFO model.",
            "level_note": _SIM_NOTE + " Histories are bounded to 30 operations so the exact check stays tractable."},
    "C11": {"design_ref": "3.11",
            "level_text": "Seeded exploration of pushers, poppers and pop_all callers for the three stacks and three synchronisation schemes, with node recycling through grace periods; exact WGL check against a LIFO model.",
            "level_note": _SIM_NOTE + " Histories are bounded to 30 operations."},
    "C12": {"design_ref": "3.12",
            "level_text": "Seeded exploration of concurrent enqueue/dequeue inside read-side sections on every flavor; exact WGL check against a FIFO model, dummy-node and reclamation oracles, destroy-iff-empty.",
            "level_note": _SIM_NOTE + " Histories are bounded to ~30 operations."},
    "C05": {"design_ref": "3.5",
            "level_text": "Seeded exploration of concurrent updates, lookups, walks, traversals and resizes on colliding hashes; exact WGL check per key plus a presence oracle for non-atomic walks.",
            "level_note": _SIM_NOTE + " Histories are bounded (<= 48 ops per key)."},
    "C06": {"design_ref": "3.6",
            "level_text": "Seeded exploration with keys restricted to the unique-insert API and readers walking duplicates at any time; duplicate-exposure, unique-winner, continuous-presence and single-hand-over oracles.",
            "level_note": _SIM_NOTE},
    "C07": {"design_ref": "3.7",
            "level_text": "Seeded exploration of competing removers/replacers of one node with reclamation into a never-reused quarantine; single-owner and no-access-after-grace-period oracles.",
            "level_note": _SIM_NOTE},
    "C09": {"design_ref": "3.9",
            "level_text": "Seeded exploration of resize requests of every size class concurrent with updates, with thread-creation and allocation faults; termination, content preservation, bucket bounds and safe teardown oracles.",
            "level_note": _SIM_NOTE},
    "C08": {"design_ref": "3.8",
            "level_text": "Seeded model-based comparison against a reference multimap over the whole configuration space, executed under the simulator so that the library's own worker threads are interleaved and faulted.",
            "level_note": _SIM_NOTE + " The input dimension is sampled (seeded generation), not enumerated.",
            "technique": "deterministic simulation (library worker threads interleaved by the seeded scheduler) driving a seeded model-based comparison with a reference multimap"},
    "C15": {"design_ref": "3.15",
            "level_text": "Seeded exploration of (un)registration churn against running grace periods on every flavor, bp registry growth with simulated mremap outcomes, slot reuse and signal delivery around automatic registration and thread exit.",
            "level_note": _SIM_NOTE},
    "C18": {"design_ref": "3.18",
            "level_text": "Seeded exploration of the updater's individual pointer stores against the reader's loads under SC and TSO; traversal termination/order/presence oracles plus quarantine.",
            "level_note": _SIM_NOTE},
    "C19": {"design_ref": "3.19",
            "level_text": "Seeded exploration of signal arrival at any access of the interrupted thread with nested handlers; state-restored oracle plus the C01 oracles over handler and interrupted sections.",
            "level_note": _SIM_NOTE},
    "C16": {"design_ref": "3.16",
            "level_text": "Seeded exploration of a real fork() at any point relative to in-flight grace periods, queued callbacks, sleeping/busy helpers and resize work; per-process exactly-once, termination and grace-period oracles.",
            "level_note": _SIM_NOTE + " The child process is a real forked process running under the same simulator state."},
    "C17": {"design_ref": "3.17",
            "level_text": "Seeded exploration of suspension points: other threads are frozen at arbitrary points inside their operations and the measured operation must finish alone without spinning or blocking within a step bound.",
            "level_note": _SIM_NOTE},
    "C20": {"design_ref": "3.20 and 4",
            "level_text": "Partial claim: seeded exploration of the C-level uatomic layer (lost updates under preemption at every access, litmus tests under simulated TSO, differential value semantics for both implementations). Single-instruction atomicity and fencing are axioms of the simulator, not something it can test.",
            "level_note": _SIM_NOTE + " single-instruction atomicity and fencing are axioms of the simulator, not something it can test.",
            "technique": "deterministic simulation (preemption at every access, simulated x86-TSO litmus) plus seeded differential testing of value semantics, the latter also in ordinary optimised builds without hooks or instrumentation (native stage)"},
}
