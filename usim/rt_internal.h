/* rt_internal.h — shared between the runtime translation units (uninstrumented) */
#ifndef RT_INTERNAL_H
#define RT_INTERNAL_H

#define _GNU_SOURCE
#include <stdint.h>
#include <stddef.h>
#include <stdio.h>
#include <stdlib.h>
#include <string.h>
#include <errno.h>
#include <pthread.h>
#include <signal.h>
#include <unistd.h>
#include "usim.h"

#define MAXT		64
#define SB_MAX		8
#define MAXKEYS		16
#define MAXSIGPLAN	8

enum tstate {
	T_UNUSED = 0, T_RUNNABLE, T_BLK_MUTEX, T_BLK_FUTEX, T_BLK_COND,
	T_BLK_JOIN, T_SLEEP, T_EXITED,
};

enum ykind {
	Y_PLAIN = 0, Y_ATOMIC_LD, Y_ATOMIC_ST, Y_RMW, Y_FENCE, Y_RELAX, Y_SYS,
	Y_PAUSE, Y_BLOCK, Y_CREATE, Y_EXIT, Y_NKINDS,
};

struct sb_ent {
	uintptr_t addr;
	uint64_t val;
	uint32_t size;
};

struct sigplan {
	int signo;
	uint64_t at_acc;
};

struct sthr {
	int id;
	int state;
	volatile uint32_t park;
	pthread_t pt;
	void *(*fn)(void *);
	void *arg;
	void *ret;
	const void *wait_obj;
	uint64_t deadline;
	int has_deadline;
	int timed_out;
	struct sb_ent sb[SB_MAX];
	int sb_n;
	uintptr_t stk_lo, stk_hi;
	/* planned suspension inside the current operation (usim_stall_plan) */
	unsigned stall_mask;		/* yield kinds that count */
	int stall_ord;			/* freeze at the stall_ord-th such yield (0 = none planned) */
	uint32_t stall_len;		/* for this many scheduler steps */
	uint64_t freeze_until;
	int stall_after, stall_armed;		/* timed freeze in effect until this step (0 = none) */
	uint64_t yields, relaxes, blocks, accs;
	int frozen;
	long prio;
	int joined;
	void *tsd[MAXKEYS];
	uint64_t sigmask;
	struct sigplan sigplan[MAXSIGPLAN];
	int nsigplan;
	uint64_t next_sig_acc;
	int sigdepth;
	int cpu;
	int in_op;
	int allow_create_fail;
	char name[32];
	char opdesc[48];
};

enum run_status { RS_OK = 0, RS_VIOLATION = 1, RS_INCONCLUSIVE = 2, RS_BUG = 3 };

struct dev { uint64_t step; int choice; };

#define NONE_CHOICE	(-1000)
#define DRAIN_CHOICE(t)	(-1 - (t))
#define IS_DRAIN(c)	((c) < 0 && (c) > NONE_CHOICE)
#define DRAIN_TID(c)	(-1 - (c))

struct named_ctr { char name[40]; uint64_t n; int enabled; };
#define MAXCTR 96

struct param { char name[48]; int64_t val; };
#define MAXPARAM 256

struct gstate {
	int active;		/* simulation running in this process */
	uint64_t rs;		/* run seed */
	uint64_t prng[US_NSTREAMS + 2];
	int tier;
	int trace;
	int record;
	/* config */
	int tso;
	int strategy;		/* 0 random walk, 1 PCT, 2 stall-one, 3 explicit */
	uint32_t stick;		/* /256 */
	int ntimed_frozen;
	int sync_bias;
	void (*thread_exit_hook)(int);	/* scenario callback, run by every exiting simulated thread after its last destructor */
	int lib_threads_block_signals;	/* oracle: threads created from library code start with signals blocked */
	int lib_create_fail;	/* pthread_create() may fail with EAGAIN for callers that are library-internal threads */
	int thread_stalls;	/* this run: every new thread may get one long planned stall */		/* random walk: preemptions concentrated at synchronisation calls (lock/unlock/futex/...) */
	uint32_t p_plain;	/* /256 : 0, 16, 64, 256 */
	uint32_t p_drain;	/* /256 */
	int membarrier_kind;	/* 0 none 1 shared 2 private expedited */
	int futex_enosys;
	/* threads */
	struct sthr thr[MAXT];
	int nthr;
	/* clock and steps */
	uint64_t steps, switches, now, steps_at_last_wake;
	uint64_t step_cap;
	uint64_t time_cap;
	uint64_t nosched_after;
	/* PCT */
	uint64_t pct_cp[8];
	int pct_ncp;
	long pct_low;
	/* stall-one */
	uint64_t stall_at, stall_len, stall_until;
	int stall_victim;
	uint32_t slice, slice_left;
	/* solo */
	int solo_tid;
	/* quiet */
	int quiet, quiet_expect, quiet_votes, quiet_forced;
	uint64_t quiet_start_step, quiet_start_now, quiet_steps, quiet_ns;
	uint64_t quiet_used_steps;
	/* log */
	uint64_t seq, hash;
	int nontrivial;
	int overlap_ops;
	/* explicit schedule */
	struct dev *exp; int nexp, iexp;
	struct dev *rec; int nrec, caprec;
	/* explicit faults */
	uint64_t fault_calls;
	uint64_t *expf; int nexpf; int use_expf;
	uint64_t *recf; int nrecf, caprecf;
	/* counters */
	struct named_ctr probes[MAXCTR]; int nprobes;
	struct named_ctr faults[MAXCTR]; int nfaults;
	uint64_t ykinds[Y_NKINDS];
	uint64_t stale_loads;
	/* params */
	struct param ovr[MAXPARAM]; int novr;
	struct param used[MAXPARAM]; int nused;
	/* knobs */
	unsigned long knob[16];
	/* topology */
	int ncpus;
	/* result */
	int result_fd;
	char descr[8192]; int descr_len;
	int want_sample;
	uint64_t mmap_calls;
	/* signals */
	usim_sighandler_t sighandler[65];
	/* pthread keys */
	void (*keydtor[MAXKEYS])(void *);
	int keyused[MAXKEYS];
	int in_fork_child;
};

extern struct gstate G;
extern __thread struct sthr *cur;

/* rt.c */
void rt_sched_point(int kind);
void rt_block(struct sthr *me);
void rt_make_runnable(struct sthr *t);
void rt_sb_drain_all(struct sthr *t);
void rt_sb_drain_everyone(void);
void rt_finish(int status, const char *cls, const char *msg) __attribute__((noreturn));
uint64_t rt_rand(int stream);
void rt_hash(uint64_t x);
void rt_trace(const char *fmt, ...) __attribute__((format(printf, 1, 2)));
struct sthr *rt_new_thread(void);
void rt_wake_waiters(const void *obj, int state, int max, int random_pick);
int rt_count_waiters(const void *obj, int state);
void rt_signal_check(struct sthr *me);

/* mem.c */
void mem_init(void);
void mem_check_slow(uintptr_t a, unsigned sz, int wr);
void *mem_alloc(size_t sz, size_t align, int zero);
void mem_free(void *p);
size_t mem_usable(void *p);
void mem_segv_install(void);
extern uintptr_t mem_arena_lo, mem_arena_hi;
extern uint8_t *mem_shadow;
void *mem_stack_for(int tid, size_t *sz);

#define ARENA_BASE	0x200000000000UL
#define ARENA_SIZE	(512UL << 20)
#define SHADOW_BASE	0x208000000000UL
#define MMAP_BASE	0x210000000000UL
#define MMAP_SIZE	(8UL << 30)
#define STACK_BASE	0x220000000000UL
#define STACK_SIZE	(512UL << 10)

#define SH_NONE 0
#define SH_LIVE 1
#define SH_FREED 2

/* target of the access the runtime is about to perform on behalf of simulated code (see the SIGSEGV handler) */
extern volatile uintptr_t rt_acc_addr;

static inline void mem_check(uintptr_t a, unsigned sz, int wr)
{
	rt_acc_addr = a;
	if (a - ARENA_BASE < ARENA_SIZE) {
		uint8_t *sh = (uint8_t *) SHADOW_BASE;
		if (sh[(a - ARENA_BASE) >> 3] != SH_LIVE ||
		    sh[(a + sz - 1 - ARENA_BASE) >> 3] != SH_LIVE)
			mem_check_slow(a, sz, wr);
	}
}

#endif
