/*
 * main.c — zygote / batch worker / single-run front end of usim.
 * NOT instrumented.
 */
#include "rt_internal.h"
#include <sys/personality.h>
#include <sys/wait.h>
#include <sys/time.h>
#include <poll.h>
#include <fcntl.h>
#include <time.h>

void rt_begin(uint64_t rs, int tier);

static double now_s(void)
{
	struct timespec ts;
	clock_gettime(CLOCK_MONOTONIC, &ts);
	return ts.tv_sec + ts.tv_nsec * 1e-9;
}

static uint64_t mix64(uint64_t z)
{
	z += 0x9e3779b97f4a7c15ULL;
	z = (z ^ (z >> 30)) * 0xbf58476d1ce4e5b9ULL;
	z = (z ^ (z >> 27)) * 0x94d049bb133111ebULL;
	return z ^ (z >> 31);
}

static const struct usim_scenario *find_scen(const char *name)
{
	int i;
	for (i = 0; i < usim_nscenarios; i++)
		if (!strcmp(usim_scenarios[i].name, name))
			return &usim_scenarios[i];
	return NULL;
}

struct runopts {
	const struct usim_scenario *sc;
	int tier, trace, record, sample;
	const char *sched, *faults;
	int novr;
	struct param ovr[MAXPARAM];
};

static void parse_sched(const char *s)
{
	int cap = 64;
	G.exp = malloc(cap * sizeof(G.exp[0]));
	G.nexp = 0;
	while (*s) {
		char *e;
		unsigned long step;
		long ch;
		while (*s == ' ' || *s == ',')
			s++;
		if (!*s)
			break;
		step = strtoul(s, &e, 10);
		if (*e != ':')
			break;
		ch = strtol(e + 1, &e, 10);
		s = e;
		if (G.nexp == cap) {
			cap *= 2;
			G.exp = realloc(G.exp, cap * sizeof(G.exp[0]));
		}
		G.exp[G.nexp].step = step;
		G.exp[G.nexp].choice = (int) ch;
		G.nexp++;
	}
}

static void parse_faults(const char *s)
{
	int cap = 64;
	G.expf = malloc(cap * sizeof(uint64_t));
	G.nexpf = 0;
	G.use_expf = 1;
	while (*s) {
		char *e;
		unsigned long v;
		while (*s == ' ' || *s == ',')
			s++;
		if (!*s)
			break;
		v = strtoul(s, &e, 10);
		if (e == s)
			break;
		s = e;
		if (G.nexpf == cap) {
			cap *= 2;
			G.expf = realloc(G.expf, cap * sizeof(uint64_t));
		}
		G.expf[G.nexpf++] = v;
	}
}

static void child_run(uint64_t rs, const struct runopts *o, int wfd)
{
	G.result_fd = wfd;
	G.trace = o->trace;
	G.record = o->record;
	G.want_sample = o->sample;
	G.novr = o->novr;
	memcpy(G.ovr, o->ovr, sizeof(o->ovr[0]) * o->novr);
	if (o->sched) {
		parse_sched(o->sched);
		G.strategy = 3;
	}
	if (o->faults)
		parse_faults(o->faults);
	if (!o->trace) {
		int nfd = open("/dev/null", O_WRONLY);
		if (nfd >= 0) {
			dup2(nfd, 2);
			close(nfd);
		}
	}
	mem_segv_install();
	rt_begin(rs, o->tier);
	if (o->sched)
		G.strategy = 3;
	o->sc->run();
	rt_finish(RS_OK, NULL, NULL);
}

/* run one seed in a forked child; returns malloc'ed result text (or NULL on watchdog/crash) */
static char *run_one(uint64_t rs, const struct runopts *o, int *how)
{
	int pfd[2];
	pid_t pid;
	char *buf = NULL;
	size_t len = 0, cap = 0;
	int st, timeout_ms = o->trace ? 120000 : 30000;
	double t0 = now_s();

	*how = 0;
	if (pipe(pfd))
		return NULL;
	pid = fork();
	if (pid == 0) {
		close(pfd[0]);
		child_run(rs, o, pfd[1]);
		_exit(0);
	}
	close(pfd[1]);
	for (;;) {
		struct pollfd p = { .fd = pfd[0], .events = POLLIN };
		int left = timeout_ms - (int) ((now_s() - t0) * 1000);
		int r;
		if (left <= 0) {
			*how = 1;	/* watchdog */
			kill(pid, SIGKILL);
			break;
		}
		r = poll(&p, 1, left);
		if (r < 0 && errno == EINTR)
			continue;
		if (r <= 0)
			continue;
		if (len + 4096 > cap) {
			cap = cap ? cap * 2 : 16384;
			buf = realloc(buf, cap);
		}
		r = read(pfd[0], buf + len, cap - len - 1);
		if (r <= 0)
			break;
		len += r;
	}
	close(pfd[0]);
	while (waitpid(pid, &st, 0) < 0 && errno == EINTR)
		;
	if (*how == 0 && (!WIFEXITED(st) || WEXITSTATUS(st) != 0))
		*how = 2;	/* crashed */
	if (buf)
		buf[len] = 0;
	if (*how == 0 && (!buf || !strstr(buf, "END\n")))
		*how = 2;
	return buf;
}

struct agg {
	uint64_t runs, ok, viol, inconcl, bug, steps, switches, simns, nontrivial;
	uint64_t tso, strat[4], maxquiet, stale, maxsteps;
	struct named_ctr f[MAXCTR * 2]; int nf;
	struct named_ctr p[MAXCTR * 2]; int np;
	uint64_t y[Y_NKINDS];
	uint64_t nthreads_hist[MAXT + 1];
};

static void agg_ctr(struct named_ctr *tab, int *n, const char *name, uint64_t v)
{
	int i;
	for (i = 0; i < *n; i++)
		if (!strcmp(tab[i].name, name)) {
			tab[i].n += v;
			tab[i].enabled++;	/* number of runs in which it fired */
			return;
		}
	if (*n >= MAXCTR * 2)
		return;
	snprintf(tab[*n].name, sizeof(tab[0].name), "%s", name);
	tab[*n].n = v;
	tab[*n].enabled = 1;
	(*n)++;
}

static int parse_ovr(struct runopts *o, const char *arg)
{
	const char *eq = strchr(arg, '=');
	if (!eq || o->novr >= MAXPARAM)
		return -1;
	snprintf(o->ovr[o->novr].name, sizeof(o->ovr[0].name), "%.*s", (int) (eq - arg), arg);
	o->ovr[o->novr].val = strtoll(eq + 1, NULL, 0);
	o->novr++;
	return 0;
}

int main(int argc, char **argv)
{
	struct runopts o;
	const char *mode, *out = NULL, *scen = NULL;
	uint64_t seed = 1, runs = 1000, rs = 0;
	int rank = 0, nranks = 1, kind, i, have_rs = 0;
	double tlimit = 1e9;
	int max_samples = 3, dump_hashes = 0;

	if (argc < 2) {
		fprintf(stderr, "usage: usim list | batch ... | one ...\n");
		return 2;
	}
	/* stable addresses: disable ASLR and re-exec once */
	if (!getenv("USIM_NOASLR_DONE")) {
		int pers = personality(0xffffffff);
		if (pers != -1 && !(pers & ADDR_NO_RANDOMIZE) &&
		    personality(pers | ADDR_NO_RANDOMIZE) != -1) {
			setenv("USIM_NOASLR_DONE", "1", 1);
			execv("/proc/self/exe", argv);
		}
	}
	mem_init();
	mode = argv[1];
	memset(&o, 0, sizeof(o));
	if (!strcmp(mode, "list")) {
		for (i = 0; i < usim_nscenarios; i++)
			printf("%s %s\n", usim_scenarios[i].name, usim_scenarios[i].property);
		return 0;
	}
	kind = getenv("USIM_MEMBARRIER") ? atoi(getenv("USIM_MEMBARRIER")) : 2;
	for (i = 2; i < argc; i++) {
		const char *a = argv[i];
		if (!strcmp(a, "--scen") && i + 1 < argc) scen = argv[++i];
		else if (!strcmp(a, "--seed") && i + 1 < argc) seed = strtoull(argv[++i], NULL, 0);
		else if (!strcmp(a, "--runs") && i + 1 < argc) runs = strtoull(argv[++i], NULL, 0);
		else if (!strcmp(a, "--rank") && i + 1 < argc) rank = atoi(argv[++i]);
		else if (!strcmp(a, "--nranks") && i + 1 < argc) nranks = atoi(argv[++i]);
		else if (!strcmp(a, "--tier") && i + 1 < argc) o.tier = atoi(argv[++i]);
		else if (!strcmp(a, "--out") && i + 1 < argc) out = argv[++i];
		else if (!strcmp(a, "--time-limit") && i + 1 < argc) tlimit = atof(argv[++i]);
		else if (!strcmp(a, "--rs") && i + 1 < argc) { rs = strtoull(argv[++i], NULL, 0); have_rs = 1; }
		else if (!strcmp(a, "--trace")) o.trace = 1;
		else if (!strcmp(a, "--record")) o.record = 1;
		else if (!strcmp(a, "--sample")) o.sample = 1;
		else if (!strcmp(a, "--sched") && i + 1 < argc) o.sched = argv[++i];
		else if (!strcmp(a, "--faults") && i + 1 < argc) o.faults = argv[++i];
		else if (!strcmp(a, "--samples") && i + 1 < argc) max_samples = atoi(argv[++i]);
		else if (!strcmp(a, "--dump-hashes")) dump_hashes = 1;
		else if (strchr(a, '=') && a[0] != '-') {
			if (parse_ovr(&o, a)) return 2;
		} else {
			fprintf(stderr, "usim: bad argument %s\n", a);
			return 2;
		}
	}
	if (!scen || !(o.sc = find_scen(scen))) {
		fprintf(stderr, "usim: unknown scenario %s\n", scen ? scen : "(none)");
		return 2;
	}

	if (!strcmp(mode, "one")) {
		int how;
		char *res;
		if (!have_rs) {
			fprintf(stderr, "usim one: --rs required\n");
			return 2;
		}
		if ((int) (rs % 3) != kind)
			fprintf(stderr, "usim: note: rs %% 3 = %d but USIM_MEMBARRIER=%d\n", (int) (rs % 3), kind);
		res = run_one(rs, &o, &how);
		if (how == 1) { printf("WATCHDOG\n"); return 2; }
		if (how == 2) { printf("CRASH\n%s", res ? res : ""); return 2; }
		fputs(res, stdout);
		return 0;
	}

	if (!strcmp(mode, "batch")) {
		FILE *fo = out ? fopen(out, "w") : stdout;
		FILE *ffp = NULL;
		struct agg *A = calloc(1, sizeof(*A));
		uint64_t idx, cnt = 0, nsamples = 0;
		double t0 = now_s();
		char fpname[512];

		if (!fo) { perror(out); return 2; }
		if (out) {
			snprintf(fpname, sizeof(fpname), "%s.fp", out);
			ffp = fopen(fpname, "w");
		}
		for (idx = 0; idx < runs; idx++) {
			uint64_t r = mix64(seed * 0x9e3779b97f4a7c15ULL + idx);
			int how;
			char *res, *line, *save;
			int status = -1;
			uint64_t hash = 0, steps = 0, sw = 0, sim = 0, quiet = 0, stale = 0;
			int nontriv = 0, nthr = 0, tso = 0, strat = 0;
			char cls[64] = "", msg[2048] = "";

			if ((int) (r % 3) != kind)
				continue;
			if ((int) (cnt++ % nranks) != rank)
				continue;
			if (now_s() - t0 > tlimit)
				break;
			o.sample = (nsamples < (uint64_t) max_samples);
			res = run_one(r, &o, &how);
			A->runs++;
			if (how) {
				A->bug++;
				fprintf(fo, "BUG rs=%lu how=%s\n", (unsigned long) r, how == 1 ? "watchdog" : "crash");
				fflush(fo);
				free(res);
				continue;
			}
			for (line = strtok_r(res, "\n", &save); line; line = strtok_r(NULL, "\n", &save)) {
				switch (line[0]) {
				case 'R':
					sscanf(line, "R %d %lx %lu %lu %lu %d %d %d %d %lu %lu", &status, &hash,
						&steps, &sw, &sim, &nontriv, &nthr, &tso, &strat, &quiet, &stale);
					break;
				case 'C': snprintf(cls, sizeof(cls), "%s", line + 2); break;
				case 'M': snprintf(msg, sizeof(msg), "%s", line + 2); break;
				case 'F': case 'P': {
					char nm[64]; unsigned long v;
					if (sscanf(line + 2, "%63s %lu", nm, &v) == 2) {
						if (line[0] == 'F') agg_ctr(A->f, &A->nf, nm, v);
						else agg_ctr(A->p, &A->np, nm, v);
					}
					break;
				}
				case 'Y': {
					char *q = line + 1; int k;
					for (k = 0; k < Y_NKINDS; k++)
						A->y[k] += strtoul(q, &q, 10);
					break;
				}
				case 'S':
					if (o.sample && status == RS_OK && nontriv) {
						fprintf(fo, "SAMPLE rs=%lu steps=%lu switches=%lu tso=%d strategy=%d :: %s\n",
							(unsigned long) r, steps, sw, tso, strat, line + 2);
						nsamples++;
					}
					break;
				}
			}
			if (dump_hashes)
				fprintf(fo, "H %lu %016lx %d %lu\n", (unsigned long) r, hash, status, steps);
			A->steps += steps; A->switches += sw; A->simns += sim;
			if (steps > A->maxsteps) A->maxsteps = steps;
			A->stale += stale;
			if (tso) A->tso++;
			if (strat >= 0 && strat < 4) A->strat[strat]++;
			if (nthr <= MAXT) A->nthreads_hist[nthr]++;
			if (quiet > A->maxquiet) A->maxquiet = quiet;
			switch (status) {
			case RS_OK:
				A->ok++;
				if (nontriv) {
					A->nontrivial++;
					if (ffp) fwrite(&hash, 8, 1, ffp);
				}
				break;
			case RS_VIOLATION:
				A->viol++;
				fprintf(fo, "FAIL rs=%lu class=%s msg=%s\n", (unsigned long) r, cls, msg);
				fflush(fo);
				break;
			case RS_INCONCLUSIVE:
				A->inconcl++;
				agg_ctr(A->p, &A->np, cls[0] ? cls : "inconclusive", 1);
				break;
			default:
				A->bug++;
				fprintf(fo, "BUG rs=%lu how=%s msg=%s\n", (unsigned long) r, cls, msg);
				fflush(fo);
			}
			free(res);
		}
		fprintf(fo, "SUM runs=%lu ok=%lu viol=%lu inconcl=%lu bug=%lu steps=%lu switches=%lu simns=%lu nontrivial=%lu tso=%lu strat0=%lu strat1=%lu strat2=%lu strat3=%lu maxquiet=%lu stale=%lu maxsteps=%lu wall=%.3f\n",
			A->runs, A->ok, A->viol, A->inconcl, A->bug, A->steps, A->switches, A->simns,
			A->nontrivial, A->tso, A->strat[0], A->strat[1], A->strat[2], A->strat[3],
			A->maxquiet, A->stale, A->maxsteps, now_s() - t0);
		for (i = 0; i < A->nf; i++)
			fprintf(fo, "F %s %lu %d\n", A->f[i].name, (unsigned long) A->f[i].n, A->f[i].enabled);
		for (i = 0; i < A->np; i++)
			fprintf(fo, "P %s %lu %d\n", A->p[i].name, (unsigned long) A->p[i].n, A->p[i].enabled);
		fprintf(fo, "Y");
		for (i = 0; i < Y_NKINDS; i++)
			fprintf(fo, " %lu", (unsigned long) A->y[i]);
		fprintf(fo, "\nNT");
		for (i = 0; i <= MAXT; i++)
			if (A->nthreads_hist[i])
				fprintf(fo, " %d:%lu", i, (unsigned long) A->nthreads_hist[i]);
		fprintf(fo, "\nDONE\n");
		if (out) fclose(fo);
		if (ffp) fclose(ffp);
		return 0;
	}
	fprintf(stderr, "usim: unknown mode %s\n", mode);
	return 2;
}
