/*
 * mem.c — tracked arena (red zones, never-reused quarantine, shadow bytes),
 * simulated mmap/mremap/munmap region, deterministic thread stacks, SIGSEGV
 * classification. NOT instrumented.
 */
#include "rt_internal.h"
#include <sys/mman.h>
#include <stdarg.h>
#include <ucontext.h>

#define REDZONE 32

struct ainfo {
	uintptr_t addr;
	size_t size;
	uint64_t alloc_seq, free_seq;
	int alloc_tid, free_tid;
	int state;
	char tag[28];
};

static struct ainfo *atab;
static int natab, capatab;
static uintptr_t arena_bump;
static uintptr_t mmap_bump;
static int mem_ready;

uintptr_t mem_arena_lo = ARENA_BASE, mem_arena_hi = ARENA_BASE + ARENA_SIZE;
uint8_t *mem_shadow = (uint8_t *) SHADOW_BASE;

struct mmap_info { uintptr_t addr; size_t len, reserve; int live; };
static struct mmap_info mtab[256];
static int nmtab;

void mem_init(void)
{
	void *p;
	if (mem_ready)
		return;
	p = mmap((void *) ARENA_BASE, ARENA_SIZE, PROT_READ | PROT_WRITE,
		 MAP_PRIVATE | MAP_ANONYMOUS | MAP_NORESERVE | MAP_FIXED_NOREPLACE, -1, 0);
	if (p != (void *) ARENA_BASE) {
		perror("usim: arena mmap");
		_exit(3);
	}
	p = mmap((void *) SHADOW_BASE, ARENA_SIZE / 8, PROT_READ | PROT_WRITE,
		 MAP_PRIVATE | MAP_ANONYMOUS | MAP_NORESERVE | MAP_FIXED_NOREPLACE, -1, 0);
	if (p != (void *) SHADOW_BASE) {
		perror("usim: shadow mmap");
		_exit(3);
	}
	p = mmap((void *) MMAP_BASE, MMAP_SIZE, PROT_NONE,
		 MAP_PRIVATE | MAP_ANONYMOUS | MAP_NORESERVE | MAP_FIXED_NOREPLACE, -1, 0);
	if (p != (void *) MMAP_BASE) {
		perror("usim: mmap region");
		_exit(3);
	}
	p = mmap((void *) STACK_BASE, STACK_SIZE * MAXT, PROT_READ | PROT_WRITE,
		 MAP_PRIVATE | MAP_ANONYMOUS | MAP_NORESERVE | MAP_FIXED_NOREPLACE, -1, 0);
	if (p != (void *) STACK_BASE) {
		perror("usim: stack region");
		_exit(3);
	}
	arena_bump = ARENA_BASE + 4096;
	mmap_bump = MMAP_BASE + (1UL << 20);
	mem_ready = 1;
}

void *mem_stack_for(int tid, size_t *sz)
{
	*sz = STACK_SIZE - 8192;
	return (void *) (STACK_BASE + (uintptr_t) tid * STACK_SIZE + 4096);
}

static struct ainfo *find_alloc(uintptr_t a)
{
	int lo = 0, hi = natab - 1, best = -1;
	while (lo <= hi) {
		int mid = (lo + hi) / 2;
		if (atab[mid].addr <= a) {
			best = mid;
			lo = mid + 1;
		} else {
			hi = mid - 1;
		}
	}
	if (best < 0)
		return NULL;
	/* nearest allocation at or below a; accept red-zone hits around it */
	if (a < atab[best].addr + atab[best].size + REDZONE)
		return &atab[best];
	if (best + 1 < natab && a + REDZONE >= atab[best + 1].addr)
		return &atab[best + 1];
	return &atab[best];
}

void mem_check_slow(uintptr_t a, unsigned sz, int wr)
{
	struct ainfo *ai = find_alloc(a);
	uint8_t s = mem_shadow[(a - ARENA_BASE) >> 3];

	if (s == SH_LIVE)
		s = mem_shadow[(a + sz - 1 - ARENA_BASE) >> 3];
	if (!G.active)
		return;
	if (ai && s == SH_FREED)
		usim_fail("use-after-free",
			"T%d %s %u bytes at offset %ld of object '%s' (%zu bytes, allocated by T%d at #%lu) freed by T%d at event #%lu; now event #%lu",
			cur ? cur->id : -1, wr ? "writes" : "reads", sz,
			(long) (a - ai->addr), ai->tag[0] ? ai->tag : "?", ai->size,
			ai->alloc_tid, (unsigned long) ai->alloc_seq, ai->free_tid,
			(unsigned long) ai->free_seq, (unsigned long) G.seq);
	usim_fail("out-of-bounds",
		"T%d %s %u bytes at %#lx outside any live object (nearest '%s' offset %ld size %zu)",
		cur ? cur->id : -1, wr ? "writes" : "reads", sz, (unsigned long) a,
		ai ? ai->tag : "none", ai ? (long) (a - ai->addr) : 0L, ai ? ai->size : 0);
}

void *mem_alloc(size_t sz, size_t align, int zero)
{
	uintptr_t a;
	size_t rsz = (sz + 7) & ~7UL;
	struct ainfo *ai;

	if (!mem_ready)
		mem_init();
	if (rsz == 0)
		rsz = 8;
	if (align < 16)
		align = 16;
	a = arena_bump + REDZONE;
	a = (a + align - 1) & ~(align - 1);
	if (a + rsz + REDZONE > ARENA_BASE + ARENA_SIZE) {
		if (G.active)
			rt_finish(RS_INCONCLUSIVE, "arena-exhausted", "tracked arena exhausted");
		errno = ENOMEM;
		return NULL;
	}
	arena_bump = a + rsz;
	memset(mem_shadow + ((a - ARENA_BASE) >> 3), SH_LIVE, rsz >> 3);
	if (zero)
		memset((void *) a, 0, rsz);
	else
		memset((void *) a, 0xa5, rsz);
	if (natab == capatab) {
		capatab = capatab ? capatab * 2 : 1024;
		atab = realloc(atab, capatab * sizeof(*atab));
	}
	ai = &atab[natab++];
	ai->addr = a;
	ai->size = rsz;
	ai->alloc_seq = G.seq;
	ai->free_seq = 0;
	ai->alloc_tid = cur ? cur->id : -1;
	ai->free_tid = -1;
	ai->state = SH_LIVE;
	ai->tag[0] = 0;
	return (void *) a;
}

static struct ainfo *exact_alloc(uintptr_t a)
{
	int lo = 0, hi = natab - 1;
	while (lo <= hi) {
		int mid = (lo + hi) / 2;
		if (atab[mid].addr == a)
			return &atab[mid];
		if (atab[mid].addr < a)
			lo = mid + 1;
		else
			hi = mid - 1;
	}
	return NULL;
}

size_t mem_usable(void *p)
{
	struct ainfo *ai = exact_alloc((uintptr_t) p);
	return ai ? ai->size : 0;
}

void mem_free(void *p)
{
	struct ainfo *ai;
	if (!p)
		return;
	if ((uintptr_t) p - ARENA_BASE >= ARENA_SIZE) {
		if (G.active)
			usim_fail("bad-free", "free() of %p which was not allocated through the tracked allocator", p);
		return;
	}
	ai = exact_alloc((uintptr_t) p);
	if (!ai) {
		if (G.active)
			usim_fail("bad-free", "free() of %p: not the start of an allocation", p);
		return;
	}
	if (ai->state != SH_LIVE) {
		if (G.active)
			usim_fail("double-free", "T%d frees object '%s' again (first freed by T%d at event #%lu)",
				cur ? cur->id : -1, ai->tag, ai->free_tid, (unsigned long) ai->free_seq);
		return;
	}
	ai->state = SH_FREED;
	ai->free_seq = G.seq;
	ai->free_tid = cur ? cur->id : -1;
	memset(mem_shadow + ((ai->addr - ARENA_BASE) >> 3), SH_FREED, ai->size >> 3);
	memset((void *) ai->addr, 0xdd, ai->size);
}

int usim_mem_is_live(const void *p)
{
	uintptr_t a = (uintptr_t) p;
	if (a - ARENA_BASE >= ARENA_SIZE)
		return 1;
	return mem_shadow[(a - ARENA_BASE) >> 3] == SH_LIVE;
}

volatile uintptr_t rt_acc_addr;

void usim_node_check(const void *p, unsigned long len, const char *what)
{
	uintptr_t a = (uintptr_t) p, i;
	if (a - ARENA_BASE >= ARENA_SIZE || a + len - ARENA_BASE > ARENA_SIZE)
		usim_fail("wild-pointer", "%s returned %p, which is not a node the program ever allocated", what, p);
	for (i = a & ~(uintptr_t) 7; i < a + len; i += 8)
		if (mem_shadow[(i - ARENA_BASE) >> 3] != SH_LIVE)
			usim_fail(mem_shadow[(i - ARENA_BASE) >> 3] == SH_FREED ? "use-after-free" : "wild-pointer",
				"%s returned %p, which is %s", what, p,
				mem_shadow[(i - ARENA_BASE) >> 3] == SH_FREED ? "a node that has already been freed" : "not (inside) a node the program allocated");
}

void usim_mem_tag(const void *p, const char *fmt, ...)
{
	struct ainfo *ai = exact_alloc((uintptr_t) p);
	va_list ap;
	if (!ai)
		return;
	va_start(ap, fmt);
	vsnprintf(ai->tag, sizeof(ai->tag), fmt, ap);
	va_end(ap);
}

/* ---- redirected allocator entry points (instrumented objects only) ---- */

static inline void alloc_point(void)
{
	if (cur && G.active) {
		rt_sb_drain_all(cur);
	}
}

void *usim_malloc(size_t sz) { alloc_point(); return mem_alloc(sz, 16, 0); }
void *usim_calloc(size_t n, size_t sz) { alloc_point(); return mem_alloc(n * sz, 16, 1); }
void usim_free(void *p) { alloc_point(); mem_free(p); }

void *usim_realloc(void *p, size_t sz)
{
	void *n;
	size_t old;
	alloc_point();
	if (!p)
		return mem_alloc(sz, 16, 0);
	old = mem_usable(p);
	n = mem_alloc(sz, 16, 0);
	if (n) {
		memcpy(n, p, old < sz ? old : sz);
		mem_free(p);
	}
	return n;
}

int usim_posix_memalign(void **out, size_t align, size_t sz)
{
	alloc_point();
	*out = mem_alloc(sz, align, 0);
	return *out ? 0 : ENOMEM;
}

void *usim_aligned_alloc(size_t align, size_t sz) { alloc_point(); return mem_alloc(sz, align, 0); }

void *usim_memcpy(void *d, const void *s, size_t n)
{
	if (cur && G.active && n) {
		rt_sb_drain_all(cur);
		mem_check((uintptr_t) s, n > 0x7fffffff ? 1 : (unsigned) n, 0);
		mem_check((uintptr_t) d, n > 0x7fffffff ? 1 : (unsigned) n, 1);
	}
	return memcpy(d, s, n);
}

void *usim_memmove(void *d, const void *s, size_t n)
{
	if (cur && G.active && n) {
		rt_sb_drain_all(cur);
		mem_check((uintptr_t) s, n > 0x7fffffff ? 1 : (unsigned) n, 0);
		mem_check((uintptr_t) d, n > 0x7fffffff ? 1 : (unsigned) n, 1);
	}
	return memmove(d, s, n);
}

void *usim_memset(void *d, int c, size_t n)
{
	if (cur && G.active && n) {
		rt_sb_drain_all(cur);
		mem_check((uintptr_t) d, n > 0x7fffffff ? 1 : (unsigned) n, 1);
	}
	return memset(d, c, n);
}

/* ---- simulated mmap family ---- */

static struct mmap_info *find_map(uintptr_t a)
{
	int i;
	for (i = 0; i < nmtab; i++)
		if (a >= mtab[i].addr && a < mtab[i].addr + mtab[i].reserve)
			return &mtab[i];
	return NULL;
}

void *usim_mmap(void *addr, size_t len, int prot, int flags, int fd, off_t off)
{
	size_t plen = (len + 4095) & ~4095UL;
	void *p;

	if (!mem_ready)
		mem_init();
	if (cur && G.active)
		rt_sb_drain_all(cur);
	if (!(flags & MAP_ANONYMOUS) || fd != -1)
		return mmap(addr, len, prot, flags, fd, off);
	G.mmap_calls++;
	if (addr && (flags & MAP_FIXED)) {
		struct mmap_info *mi;
		if ((uintptr_t) addr - MMAP_BASE >= MMAP_SIZE)
			usim_bug("MAP_FIXED outside the simulated region");
		/*
		 * MAP_FIXED silently replaces whatever is mapped at the target. The only
		 * legitimate use here is re-protecting pages inside a mapping the caller
		 * obtained earlier (the mmap bucket allocator's reservation): anything
		 * beyond that mapping's length belongs to somebody else.
		 */
		mi = find_map((uintptr_t) addr);
		if (cur && G.active &&
		    (!mi || (uintptr_t) addr + plen > mi->addr + mi->len))
			usim_fail("mmap-fixed-outside-reservation",
				"T%d maps %zu bytes with MAP_FIXED at %#lx, beyond the end of the mapping it was given (%#lx + %zu): this overwrites memory the caller does not own",
				cur->id, plen, (unsigned long) addr, mi ? (unsigned long) mi->addr : 0UL, mi ? mi->len : (size_t) 0);
		p = mmap(addr, plen, prot, MAP_PRIVATE | MAP_ANONYMOUS | MAP_FIXED, -1, 0);
		return p;
	}
	if (nmtab >= 256 || mmap_bump + plen * 8 + (1UL << 20) > MMAP_BASE + MMAP_SIZE) {
		if (G.active)
			rt_finish(RS_INCONCLUSIVE, "arena-exhausted", "simulated mmap region exhausted");
		errno = ENOMEM;
		return MAP_FAILED;
	}
	p = mmap((void *) mmap_bump, plen, prot, MAP_PRIVATE | MAP_ANONYMOUS | MAP_FIXED, -1, 0);
	if (p == MAP_FAILED)
		return p;
	mtab[nmtab].addr = mmap_bump;
	mtab[nmtab].len = plen;
	mtab[nmtab].reserve = plen * 8 + (256UL << 10);
	mtab[nmtab].live = 1;
	mmap_bump += mtab[nmtab].reserve + (64UL << 10);
	nmtab++;
	return p;
}

int usim_munmap(void *addr, size_t len)
{
	size_t plen = (len + 4095) & ~4095UL;
	if (cur && G.active)
		rt_sb_drain_all(cur);
	if ((uintptr_t) addr - MMAP_BASE >= MMAP_SIZE)
		return munmap(addr, len);
	if (cur && G.active) {
		struct mmap_info *mi = find_map((uintptr_t) addr);
		if (!mi || (uintptr_t) addr + plen > mi->addr + mi->len)
			usim_fail("munmap-outside-mapping",
				"T%d unmaps %zu bytes at %#lx, beyond the end of the mapping it was given: this unmaps memory the caller does not own",
				cur->id, plen, (unsigned long) addr);
	}
	/* never reused: later touches fault and are reported */
	if (mmap(addr, plen, PROT_NONE, MAP_PRIVATE | MAP_ANONYMOUS | MAP_FIXED | MAP_NORESERVE, -1, 0) == MAP_FAILED)
		return -1;
	return 0;
}

int usim_mprotect(void *addr, size_t len, int prot)
{
	return mprotect(addr, len, prot);
}

void *usim_mremap(void *old, size_t oldsz, size_t newsz, int flags, ...)
{
	struct mmap_info *mi;
	size_t pold = (oldsz + 4095) & ~4095UL, pnew = (newsz + 4095) & ~4095UL;

	if (cur && G.active)
		rt_sb_drain_all(cur);
	G.mmap_calls++;
	mi = find_map((uintptr_t) old);
	if (!mi || (uintptr_t) old != mi->addr)
		usim_bug("mremap of an unknown mapping");
	if ((flags & MREMAP_MAYMOVE) && pnew > pold) {
		/* the kernel may move the mapping: here it always does; the old range stays unmapped for good */
		void *n = usim_mmap(NULL, pnew, PROT_READ | PROT_WRITE, MAP_PRIVATE | MAP_ANONYMOUS, -1, 0);
		if (n == MAP_FAILED)
			return n;
		memcpy(n, old, pold);
		mmap(old, pold, PROT_NONE, MAP_PRIVATE | MAP_ANONYMOUS | MAP_FIXED | MAP_NORESERVE, -1, 0);
		usim_probe("os.mremap_moved");
		return n;
	}
	/*
	 * Growth is decided at a simulated page size of 64 bytes: with the handful
	 * of threads a run has, the bp registry (128 bytes per reader) never crosses
	 * a real 4 KiB page, and "the mapping cannot be extended in place" -- the
	 * case the library answers with an additional chunk -- would never occur.
	 */
	if (((newsz + 63) & ~63UL) > ((oldsz + 63) & ~63UL) && pnew == pold) {
		if (usim_fault("mremap_inplace_fails", 1, 2)) {
			usim_probe("os.mremap_failed");
			errno = ENOMEM;
			return MAP_FAILED;
		}
		usim_probe("os.mremap_inplace");
		return old;
	}
	if (pnew <= pold) {
		if (pnew < pold)
			mmap((char *) old + pnew, pold - pnew, PROT_NONE,
			     MAP_PRIVATE | MAP_ANONYMOUS | MAP_FIXED | MAP_NORESERVE, -1, 0);
		mi->len = pnew;
		return old;
	}
	if (pnew > mi->reserve || usim_fault("mremap_inplace_fails", 1, 2)) {
		usim_probe("os.mremap_failed");
		errno = ENOMEM;
		return MAP_FAILED;
	}
	if (mmap((char *) old + pold, pnew - pold, PROT_READ | PROT_WRITE,
		 MAP_PRIVATE | MAP_ANONYMOUS | MAP_FIXED, -1, 0) == MAP_FAILED)
		return MAP_FAILED;
	mi->len = pnew;
	usim_probe("os.mremap_inplace");
	return old;
}

/* ---- SIGSEGV classification ---- */

static void segv_handler(int sig, siginfo_t *si, void *uc)
{
	uintptr_t a = (uintptr_t) si->si_addr;
	uintptr_t pc = (uintptr_t) ((ucontext_t *) uc)->uc_mcontext.gregs[REG_RIP];
	static int nested;

	if (nested++)
		_exit(3);
	if (!G.active || !cur) {
		fprintf(stderr, "usim: real %s at %#lx pc %#lx outside a run\n",
			sig == SIGSEGV ? "SIGSEGV" : "SIGBUS", (unsigned long) a, (unsigned long) pc);
		_exit(3);
	}
	if (a - MMAP_BASE < MMAP_SIZE)
		usim_fail("use-after-unmap", "T%d touches %#lx inside a discarded or never-populated simulated mapping (pc %#lx)",
			cur->id, (unsigned long) a, (unsigned long) pc);
	if (a == 0xddddddddddddddddUL || (a >> 16) == 0xddddddddddddUL || a == 0 ||
	    (a & 0xffffffff00000000UL) == 0xdddddddd00000000UL || si->si_code == SI_KERNEL)
		usim_fail("wild-pointer", "T%d dereferences %#lx (poison of a freed object, or NULL) at pc %#lx",
			cur->id, (unsigned long) a, (unsigned long) pc);
	if (a < 4096 * 16)
		usim_fail("wild-pointer", "T%d dereferences near-NULL %#lx at pc %#lx", cur->id,
			(unsigned long) a, (unsigned long) pc);
	if ((a >> 40) == 0xa5a5a5 || (a & 0xffffffffffff0000UL) == 0xa5a5a5a5a5a50000UL)
		usim_fail("wild-pointer", "T%d dereferences uninitialised-memory pattern %#lx at pc %#lx",
			cur->id, (unsigned long) a, (unsigned long) pc);
	{
		/* instrumented (library / scenario) text lives in its own section, see Makefile */
		extern char __start_itext[], __stop_itext[], __start_stext[], __stop_stext[];
		if (pc == a)
			usim_fail("wild-jump", "T%d jumps to %#lx, which is not code (a corrupted function pointer or return address)",
				cur->id, (unsigned long) a);
		if ((pc >= (uintptr_t) __start_itext && pc < (uintptr_t) __stop_itext) ||
		    (pc >= (uintptr_t) __start_stext && pc < (uintptr_t) __stop_stext))
			usim_fail("wild-pointer", "T%d dereferences unmapped address %#lx at pc %#lx (library or scenario code)",
				cur->id, (unsigned long) a, (unsigned long) pc);
	}
	/* an atomic access performed by the runtime itself on behalf of the simulated thread */
	if (a - rt_acc_addr < 8 || (a == 0 && rt_acc_addr > 0x7fffffffffffUL))
		usim_fail("wild-pointer", "T%d atomically accesses unmapped address %#lx (library or scenario code)",
			cur->id, (unsigned long) a);
	usim_bug("unclassified SIGSEGV at %#lx pc %#lx in T%d", (unsigned long) a, (unsigned long) pc, cur->id);
}

static void ill_handler(int sig, siginfo_t *si, void *uc)
{
	uintptr_t pc = (uintptr_t) ((ucontext_t *) uc)->uc_mcontext.gregs[REG_RIP];
	static int nested;
	(void) si;
	if (nested++ || !G.active || !cur)
		_exit(3);
	usim_fail("crash", "T%d raised %s at pc %#lx (wild jump or arithmetic trap in library or scenario code)",
		cur->id, sig == SIGILL ? "SIGILL" : "SIGFPE", (unsigned long) pc);
}

void mem_segv_install(void)
{
	struct sigaction sa;
	static char altstack[65536];
	stack_t ss = { .ss_sp = altstack, .ss_size = sizeof(altstack), .ss_flags = 0 };

	sigaltstack(&ss, NULL);
	memset(&sa, 0, sizeof(sa));
	sa.sa_sigaction = segv_handler;
	sa.sa_flags = SA_SIGINFO | SA_NODEFER;
	sigaction(SIGSEGV, &sa, NULL);
	sigaction(SIGBUS, &sa, NULL);
	sa.sa_sigaction = ill_handler;
	sigaction(SIGILL, &sa, NULL);
	sigaction(SIGFPE, &sa, NULL);
}
