/*
 * os.c — simulated OS services seen by the instrumented objects
 * (liburcu + scenarios) through objcopy --redefine-syms: pthread mutex/cond,
 * futex, membarrier, poll, getcpu, sysconf, sysfs cpu files, sigmask,
 * abort/assert, fork. NOT instrumented.
 */
#include "rt_internal.h"
#include <sys/syscall.h>
#include <linux/futex.h>
#include <poll.h>
#include <sched.h>
#include <dirent.h>
#include <fcntl.h>
#include <stdarg.h>
#include <sys/wait.h>
#include <time.h>
#include <sys/prctl.h>

#define IN_SIM (cur != NULL && G.active)

/* ------------------------------------------------------------------ mutex */

struct smutex {
	int owner;	/* tid + 1, 0 = free */
	int magic;
};

int usim_pthread_mutex_init(pthread_mutex_t *m, const pthread_mutexattr_t *a)
{
	(void) a;
	memset(m, 0, sizeof(*m));
	return 0;
}

int usim_pthread_mutex_destroy(pthread_mutex_t *m)
{
	struct smutex *s = (struct smutex *) m;
	if (IN_SIM && s->owner)
		usim_fail("mutex-misuse", "pthread_mutex_destroy on a locked mutex (owner T%d)", s->owner - 1);
	return 0;
}

int usim_pthread_mutex_lock(pthread_mutex_t *m)
{
	struct smutex *s = (struct smutex *) m;
	struct sthr *me = cur;

	if (!IN_SIM) {
		s->owner = 1;
		return 0;
	}
	mem_check((uintptr_t) m, sizeof(*s), 1);
	rt_sb_drain_all(me);
	rt_sched_point(Y_SYS);
	while (s->owner) {
		if (s->owner == me->id + 1 && me->sigdepth == 0)
			usim_fail("deadlock", "T%d relocks a mutex it already holds", me->id);
		me->state = T_BLK_MUTEX;
		me->wait_obj = m;
		rt_block(me);
		mem_check((uintptr_t) m, sizeof(*s), 1);
	}
	s->owner = me->id + 1;
	return 0;
}

int usim_pthread_mutex_trylock(pthread_mutex_t *m)
{
	struct smutex *s = (struct smutex *) m;
	struct sthr *me = cur;

	if (!IN_SIM) {
		if (s->owner)
			return EBUSY;
		s->owner = 1;
		return 0;
	}
	mem_check((uintptr_t) m, sizeof(*s), 1);
	rt_sb_drain_all(me);
	rt_sched_point(Y_SYS);
	if (s->owner) {
		rt_sched_point(Y_PAUSE);
		return EBUSY;
	}
	s->owner = me->id + 1;
	return 0;
}

int usim_pthread_mutex_unlock(pthread_mutex_t *m)
{
	struct smutex *s = (struct smutex *) m;
	struct sthr *me = cur;

	if (!IN_SIM) {
		s->owner = 0;
		return 0;
	}
	mem_check((uintptr_t) m, sizeof(*s), 1);
	rt_sb_drain_all(me);
	if (s->owner != me->id + 1)
		usim_fail("mutex-misuse", "T%d unlocks a mutex owned by %d", me->id, s->owner - 1);
	s->owner = 0;
	rt_wake_waiters(m, T_BLK_MUTEX, MAXT, 0);
	rt_sched_point(Y_SYS);
	return 0;
}

/* ------------------------------------------------------------------ cond */

int usim_pthread_cond_init(pthread_cond_t *c, const pthread_condattr_t *a)
{
	(void) a;
	memset(c, 0, sizeof(*c));
	return 0;
}

int usim_pthread_cond_destroy(pthread_cond_t *c) { (void) c; return 0; }

int usim_pthread_cond_wait(pthread_cond_t *c, pthread_mutex_t *m)
{
	struct sthr *me = cur;
	struct smutex *s = (struct smutex *) m;

	if (!IN_SIM)
		return 0;
	rt_sb_drain_all(me);
	if (s->owner != me->id + 1)
		usim_fail("mutex-misuse", "cond_wait without holding the mutex");
	s->owner = 0;
	rt_wake_waiters(m, T_BLK_MUTEX, MAXT, 0);
	if (usim_fault("cond_spurious", 1, 16)) {
		rt_sched_point(Y_SYS);
	} else {
		me->state = T_BLK_COND;
		me->wait_obj = c;
		rt_block(me);
	}
	while (s->owner) {
		me->state = T_BLK_MUTEX;
		me->wait_obj = m;
		rt_block(me);
	}
	s->owner = me->id + 1;
	return 0;
}

int usim_pthread_cond_timedwait(pthread_cond_t *c, pthread_mutex_t *m, const struct timespec *ts)
{
	(void) ts;
	return usim_pthread_cond_wait(c, m);
}

int usim_pthread_cond_signal(pthread_cond_t *c)
{
	if (!IN_SIM)
		return 0;
	rt_sb_drain_all(cur);
	rt_wake_waiters(c, T_BLK_COND, 1, 1);
	rt_sched_point(Y_SYS);
	return 0;
}

int usim_pthread_cond_broadcast(pthread_cond_t *c)
{
	if (!IN_SIM)
		return 0;
	rt_sb_drain_all(cur);
	rt_wake_waiters(c, T_BLK_COND, MAXT, 0);
	rt_sched_point(Y_SYS);
	return 0;
}

/* ------------------------------------------------------------------ sigmask */

int usim_pthread_sigmask(int how, const sigset_t *set, sigset_t *old)
{
	struct sthr *me = cur;
	uint64_t m = 0;
	int s;

	if (!IN_SIM)
		return 0;
	/* a signal may arrive right before the mask changes (still under the old mask) */
	me->accs++;
	if (me->accs >= me->next_sig_acc)
		rt_signal_check(me);
	me->accs++;
	if (old) {
		sigemptyset(old);
		for (s = 1; s <= 64; s++)
			if (me->sigmask & (1ULL << (s - 1)))
				sigaddset(old, s);
	}
	if (set) {
		for (s = 1; s <= 64; s++)
			if (sigismember(set, s) == 1)
				m |= 1ULL << (s - 1);
		switch (how) {
		case SIG_BLOCK: me->sigmask |= m; break;
		case SIG_UNBLOCK: me->sigmask &= ~m; break;
		case SIG_SETMASK: me->sigmask = m; break;
		default: return EINVAL;
		}
	}
	/* pending signals are delivered as soon as they are unmasked */
	if (me->accs >= me->next_sig_acc)
		rt_signal_check(me);
	return 0;
}

int usim_sigprocmask(int how, const sigset_t *set, sigset_t *old)
{
	return usim_pthread_sigmask(how, set, old);
}

/* ------------------------------------------------------------------ sleep / poll */

static void sim_sleep_ns(uint64_t ns)
{
	struct sthr *me = cur;
	me->state = T_SLEEP;
	me->wait_obj = NULL;
	me->has_deadline = 1;
	me->deadline = G.now + ns;
	me->timed_out = 0;
	rt_block(me);
}

int usim_poll(struct pollfd *fds, nfds_t nfds, int timeout)
{
	struct sthr *me = cur;

	if (!IN_SIM)
		return poll(fds, nfds, timeout);
	if (nfds != 0)
		usim_bug("poll() with file descriptors is not simulated");
	rt_sb_drain_all(me);
	me->accs++;
	if (me->accs >= me->next_sig_acc)
		rt_signal_check(me);
	rt_sched_point(Y_PAUSE);
	if (usim_fault("poll_eintr", 1, 8)) {
		errno = EINTR;
		return -1;
	}
	if (timeout > 0)
		sim_sleep_ns((uint64_t) timeout * 1000000ULL);
	else if (timeout < 0)
		usim_fail("deadlock", "poll(NULL, 0, -1): sleeps forever");
	return 0;
}

unsigned int usim_sleep(unsigned int s)
{
	if (!IN_SIM)
		return sleep(s);
	rt_sb_drain_all(cur);
	rt_sched_point(Y_PAUSE);
	sim_sleep_ns((uint64_t) s * 1000000000ULL);
	return 0;
}

int usim_usleep(useconds_t us)
{
	if (!IN_SIM)
		return usleep(us);
	rt_sb_drain_all(cur);
	rt_sched_point(Y_PAUSE);
	sim_sleep_ns((uint64_t) us * 1000ULL);
	return 0;
}

int usim_nanosleep(const struct timespec *req, struct timespec *rem)
{
	(void) rem;
	if (!IN_SIM)
		return nanosleep(req, rem);
	rt_sb_drain_all(cur);
	rt_sched_point(Y_PAUSE);
	sim_sleep_ns((uint64_t) req->tv_sec * 1000000000ULL + req->tv_nsec);
	return 0;
}

int usim_clock_gettime(clockid_t id, struct timespec *ts)
{
	if (!IN_SIM)
		return clock_gettime(id, ts);
	ts->tv_sec = 1000 + G.now / 1000000000ULL;
	ts->tv_nsec = G.now % 1000000000ULL;
	return 0;
}

int usim_sched_yield(void)
{
	if (IN_SIM)
		rt_sched_point(Y_PAUSE);
	return 0;
}

/* ------------------------------------------------------------------ futex / membarrier */

enum {
	MB_CMD_QUERY = 0, MB_CMD_SHARED = 1, MB_CMD_PRIVATE_EXPEDITED = 8,
	MB_CMD_REGISTER_PRIVATE_EXPEDITED = 16,
};

static int membarrier_kind(void)
{
	static int kind = -1;
	if (kind < 0) {
		const char *e = getenv("USIM_MEMBARRIER");
		kind = e ? atoi(e) : 2;
		G.membarrier_kind = kind;
	}
	return kind;
}

static long sim_membarrier(int cmd)
{
	int kind = membarrier_kind();

	if (kind == 0) {
		errno = ENOSYS;
		return -1;
	}
	switch (cmd) {
	case MB_CMD_QUERY:
		return kind == 1 ? MB_CMD_SHARED :
			(MB_CMD_SHARED | MB_CMD_PRIVATE_EXPEDITED | MB_CMD_REGISTER_PRIVATE_EXPEDITED);
	case MB_CMD_REGISTER_PRIVATE_EXPEDITED:
		if (kind != 2) { errno = EINVAL; return -1; }
		return 0;
	case MB_CMD_PRIVATE_EXPEDITED:
		if (kind != 2) { errno = EINVAL; return -1; }
		/* fall through */
	case MB_CMD_SHARED:
		if (IN_SIM) {
			cur->accs++;
			if (cur->accs >= cur->next_sig_acc)
				rt_signal_check(cur);
			rt_sched_point(Y_SYS);
			/* a full barrier executes on every running thread */
			rt_sb_drain_everyone();
			usim_probe("os.membarrier");
			rt_sched_point(Y_SYS);
		}
		return 0;
	}
	errno = EINVAL;
	return -1;
}

static long sim_futex(int32_t *uaddr, int op, int32_t val, const struct timespec *timeout)
{
	struct sthr *me = cur;
	int cmd = op & ~(FUTEX_PRIVATE_FLAG | FUTEX_CLOCK_REALTIME);

	mem_check((uintptr_t) uaddr, 4, 0);
	rt_sb_drain_all(me);
	me->accs++;
	if (me->accs >= me->next_sig_acc)
		rt_signal_check(me);
	rt_sched_point(Y_SYS);
	if (G.futex_enosys) {
		ctr_hit:
		usim_probe("os.futex_enosys");
		errno = ENOSYS;
		return -1;
	}
	switch (cmd) {
	case FUTEX_WAIT:
		if (usim_fault("futex_wait_enosys", 1, 24))
			goto ctr_hit;
		if (usim_fault("futex_wait_eintr", 1, 12)) {
			errno = EINTR;
			return -1;
		}
		if (usim_fault("futex_wait_spurious", 1, 12))
			return 0;
		mem_check((uintptr_t) uaddr, 4, 0);
		if (__atomic_load_n(uaddr, __ATOMIC_RELAXED) != val) {
			usim_probe("os.futex_wait_eagain");
			errno = EAGAIN;
			return -1;
		}
		usim_probe("os.futex_wait_blocked");
		me->state = T_BLK_FUTEX;
		me->wait_obj = uaddr;
		me->timed_out = 0;
		if (timeout) {
			me->has_deadline = 1;
			me->deadline = G.now + (uint64_t) timeout->tv_sec * 1000000000ULL + timeout->tv_nsec;
		}
		rt_block(me);
		if (me->timed_out) {
			errno = ETIMEDOUT;
			return -1;
		}
		return 0;
	case FUTEX_WAKE: {
		int n = rt_count_waiters(uaddr, T_BLK_FUTEX);
		if (n > val)
			n = val;
		if (n)
			usim_probe("os.futex_wake_woke");
		else
			usim_probe("os.futex_wake_nobody");
		rt_wake_waiters(uaddr, T_BLK_FUTEX, val, 1);
		rt_sched_point(Y_SYS);
		return n;
	}
	}
	errno = ENOSYS;
	return -1;
}

long usim_syscall(long nr, ...)
{
	va_list ap;
	long a[6];
	int i;

	va_start(ap, nr);
	for (i = 0; i < 6; i++)
		a[i] = va_arg(ap, long);
	va_end(ap);
	if (nr == SYS_membarrier)
		return sim_membarrier((int) a[0]);
	if (nr == SYS_futex && IN_SIM)
		return sim_futex((int32_t *) a[0], (int) a[1], (int32_t) a[2],
				 (const struct timespec *) a[3]);
	if (nr == SYS_gettid && IN_SIM)
		return 100000 + cur->id;
	return syscall(nr, a[0], a[1], a[2], a[3], a[4], a[5]);
}

void usim_set_futex_enosys(int on) { G.futex_enosys = on; }

/* ------------------------------------------------------------------ cpu topology */

int usim_sched_getcpu(void)
{
	struct sthr *me = cur;
	if (!IN_SIM)
		return 0;
	rt_sched_point(Y_SYS);
	if (usim_fault("getcpu_fail", 1, 32)) {
		errno = ENOSYS;
		return -1;
	}
	if (G.ncpus > 1 && usim_fault("getcpu_migrate", 1, 4))
		me->cpu = (me->cpu + 1 + (int) usim_below(US_FAULT, G.ncpus - 1)) % G.ncpus;
	return me->cpu;
}

int usim_sched_setaffinity(pid_t pid, size_t sz, const cpu_set_t *set)
{
	int c;
	(void) pid;
	if (!IN_SIM)
		return 0;
	for (c = 0; c < G.ncpus && c < (int) sz * 8; c++)
		if (CPU_ISSET_S(c, sz, set)) {
			cur->cpu = c;
			break;
		}
	return 0;
}

long usim_sysconf(int name)
{
	if (name == _SC_NPROCESSORS_CONF || name == _SC_NPROCESSORS_ONLN)
		return G.ncpus > 0 ? G.ncpus : 2;
	return sysconf(name);
}

int usim_getpagesize(void) { return 4096; }

#define FAKE_FD 1000077
static int fake_fd_pos;

int usim_open(const char *path, int flags, ...)
{
	mode_t mode = 0;
	if (flags & O_CREAT) {
		va_list ap;
		va_start(ap, flags);
		mode = va_arg(ap, mode_t);
		va_end(ap);
	}
	if (!strcmp(path, "/sys/devices/system/cpu/possible")) {
		fake_fd_pos = 0;
		return FAKE_FD;
	}
	return open(path, flags, mode);
}

ssize_t usim_read(int fd, void *buf, size_t n)
{
	if (fd == FAKE_FD) {
		char tmp[32];
		int len, ncpu = G.ncpus > 0 ? G.ncpus : 2;
		if (ncpu > 1)
			len = snprintf(tmp, sizeof(tmp), "0-%d\n", ncpu - 1);
		else
			len = snprintf(tmp, sizeof(tmp), "0\n");
		if (fake_fd_pos >= len)
			return 0;
		if (n > (size_t) (len - fake_fd_pos))
			n = len - fake_fd_pos;
		memcpy(buf, tmp + fake_fd_pos, n);
		fake_fd_pos += n;
		return n;
	}
	return read(fd, buf, n);
}

int usim_close(int fd)
{
	if (fd == FAKE_FD)
		return 0;
	return close(fd);
}

DIR *usim_opendir(const char *path)
{
	if (!strncmp(path, "/sys/devices/system/cpu", 23)) {
		errno = ENOENT;
		return NULL;
	}
	return opendir(path);
}

/* ------------------------------------------------------------------ abort / assert / exit */

void usim_abort(void)
{
	if (IN_SIM)
		usim_fail("abort", "abort() called by T%d (%s)", cur->id, cur->name);
	abort();
}

void usim___assert_fail(const char *expr, const char *file, unsigned int line, const char *func)
{
	const char *b = strrchr(file, '/');
	if (IN_SIM)
		usim_fail("assert", "assertion '%s' failed at %s:%u (%s) in T%d", expr,
			b ? b + 1 : file, line, func ? func : "?", cur->id);
	fprintf(stderr, "assertion %s failed %s:%u\n", expr, file, line);
	abort();
}

void usim_exit(int code)
{
	if (IN_SIM)
		usim_fail("abort", "exit(%d) called by T%d", code, cur->id);
	exit(code);
}

/* ------------------------------------------------------------------ fork */

/*
 * Real fork. The child keeps only the calling simulated thread (as POSIX
 * says); it inherits the result pipe. The parent waits for the child and
 * merges the child's verdict: a violation found in the child is reported by
 * the child itself on the shared result pipe, after which the parent must not
 * report a second record: the child signals through its exit status.
 */
pid_t usim_fork(void)
{
	struct sthr *me = cur;
	pid_t pid;
	int i;

	if (!IN_SIM)
		return fork();
	rt_sb_drain_all(me);
	rt_sched_point(Y_SYS);
	/* other threads' buffered stores: committed before, or lost with, the copy */
	for (i = 0; i < G.nthr; i++) {
		struct sthr *t = &G.thr[i];
		if (t != me && t->sb_n && usim_fault("fork_commits_foreign_buffers", 1, 2))
			rt_sb_drain_all(t);
	}
	usim_probe("os.fork");
	fflush(stderr);
	pid = fork();
	if (pid < 0)
		usim_bug("real fork failed");
	if (pid == 0) {
		/* child: every other simulated thread is gone */
		for (i = 0; i < G.nthr; i++) {
			struct sthr *t = &G.thr[i];
			if (t != me && t->state != T_EXITED) {
				t->state = T_EXITED;
				t->sb_n = 0;
				t->has_deadline = 0;
				t->frozen = 0;
				t->freeze_until = 0;
				t->joined = 1;	/* joining it is an error */
			}
		}
		prctl(PR_SET_PDEATHSIG, SIGKILL);
		G.in_fork_child = 1;
		G.ntimed_frozen = 0;
		me->stall_ord = 0;
		me->stall_armed = 0;
		G.solo_tid = -1;
		G.stall_victim = -2;
		for (i = 0; i < US_NSTREAMS + 2; i++)
			G.prng[i] ^= 0xc411dULL * (i + 3);
		rt_hash(0xf04bc411dULL);
		return 0;
	}
	/* parent: wait for the child's verdict while holding the baton */
	{
		int st = 0;
		while (waitpid(pid, &st, 0) < 0 && errno == EINTR)
			;
		if (!WIFEXITED(st))
			usim_bug("forked child died with status %#x", st);
		if (WEXITSTATUS(st) == 42) {
			/* child already wrote a violation record (a child that forked itself passes the verdict up) */
			_exit(G.in_fork_child ? 42 : 0);
		}
		if (WEXITSTATUS(st) == 43)
			rt_finish(RS_INCONCLUSIVE, "stepcap", "forked child hit the step cap");
		if (WEXITSTATUS(st) != 41)
			usim_bug("forked child exit code %d", WEXITSTATUS(st));
		rt_hash(0xf04bULL);
	}
	return pid;
}

pid_t usim_waitpid(pid_t pid, int *st, int opts)
{
	(void) pid; (void) opts;
	if (st)
		*st = 0;
	return pid;
}
