/*
 * usim.h — interface between instrumented scenario code and the simulator
 * runtime (rt.c). Scenario code is compiled WITH access instrumentation and
 * symbol redirection; the runtime is compiled without either.
 */
#ifndef USIM_H
#define USIM_H

#include <stdint.h>
#include <stddef.h>
#include <stdarg.h>

#ifdef __cplusplus
extern "C" {
#endif

/* PRNG streams (independent sub-streams of the one run seed) */
enum { US_PROG = 0, US_SCHED = 1, US_FAULT = 2, US_MISC = 3, US_NSTREAMS };

uint64_t usim_rand(int stream);
uint32_t usim_below(int stream, uint32_t n);	/* uniform in [0,n) ; n>0 */
int usim_chance(int stream, uint32_t num, uint32_t den);

/*
 * Named run parameter: returns the override given on the command line /
 * replay file if there is one, else dflt. Every consulted parameter is
 * reported back (name=value) so that the minimiser knows what it can shrink.
 */
int64_t usim_param(const char *name, int64_t dflt);
/* formatted name variant */
int64_t usim_paramf(int64_t dflt, const char *fmt, ...) __attribute__((format(printf, 2, 3)));

/* tier: 0 quick, 1 thorough */
int usim_tier(void);

/* Event log: returns the global sequence number of the event (never ties). */
uint64_t usim_ev(uint32_t kind, uint64_t a, uint64_t b, uint64_t c);
uint64_t usim_seq(void);	/* take a sequence number without hashing an event */

/* Report a property violation and end the run. Never returns. */
void usim_fail(const char *cls, const char *fmt, ...)
	__attribute__((noreturn, format(printf, 2, 3)));
/* Report a harness/machinery error (exit code 2 semantics). Never returns. */
void usim_bug(const char *fmt, ...)
	__attribute__((noreturn, format(printf, 1, 2)));

/* Reach probes and fault counters (named, counted per run, merged per batch) */
void usim_probe(const char *name);
void usim_probe_n(const char *name, uint64_t n);

/* Fault decision: fires with probability num/den if the kind is enabled. */
int usim_fault(const char *kind, uint32_t num, uint32_t den);
/* per-run enable/disable and rate scaling of a fault kind (scenario setup) */
void usim_fault_enable(const char *kind, int on);

/* Library tuning knobs (see /repo include/urcu/verif-hooks.h). 0 = default */
void usim_set_knob(int knob, unsigned long value);

/* Describe the generated program (free text / JSON fragment) for samples. */
void usim_describe(const char *fmt, ...) __attribute__((format(printf, 1, 2)));

/* Mark this run as non-trivial (overlap happened inside an operation). */
void usim_mark_nontrivial(void);

/* The calling thread is a harness (script) thread: used by deadlock reports */
void usim_thread_name(const char *fmt, ...) __attribute__((format(printf, 1, 2)));
/* label of the operation the calling thread is executing (reports, traces) */
void usim_set_op(const char *fmt, ...) __attribute__((format(printf, 1, 2)));
int usim_tid(void);
int usim_nthreads(void);

/*
 * Liveness: every script thread votes once, right before issuing its last
 * operation. When nvoters votes are in, the quiet phase starts: faults off,
 * fair round-robin, buffers drain eagerly; a step/time budget applies and
 * exceeding it is a violation of class "liveness".
 */
void usim_quiet_expect(int nvoters);
void usim_quiet_vote(void);
int usim_in_quiet(void);
/* scale of the quiet-phase budget (steps). */
void usim_quiet_budget(uint64_t steps, uint64_t sim_ns);

/* Simulated time in ns */
uint64_t usim_now(void);
uint64_t usim_steps(void);
/* steps taken by the calling thread (its own yield points) */
uint64_t usim_my_steps(void);
uint64_t usim_my_relaxes(void);
uint64_t usim_my_blocks(void);

/* Memory model of this run: 0 = SC, 1 = TSO */
int usim_is_tso(void);

/*
 * Solo mode (C17): freeze every other simulated thread where it stands
 * (buffers drained first) until usim_solo_end().
 */
void usim_solo_begin(void);
void usim_solo_end(void);
/* Freeze / thaw one thread (by sim tid). */
void usim_freeze(int tid, int on);
/* pthread_create() by the calling thread may fail with EAGAIN (fault kind pthread_create_eagain) */
void usim_allow_create_fail(int on);
/*
 * Planned suspension of the calling thread inside its next library operation
 * ("an enqueuer suspended between its tail exchange and its link store"): at
 * its ordinal-th next yield point that is an atomic load/store, a
 * read-modify-write or a fence, the thread is frozen for `steps` scheduler
 * steps (others run meanwhile), provided somebody else can run. A freeze is
 * always a legal schedule. usim_stall_cancel() drops a plan that has not fired.
 */
void usim_stall_plan(int ordinal, uint32_t steps);
void usim_stall_cancel(void);
/* Plain yield point callable from harness code */
void usim_yield(void);
/* A yield point at which other threads are strongly preferred. */
void usim_pause(void);

/* Simulated signals */
typedef void (*usim_sighandler_t)(int);
void usim_signal_handler(int signo, usim_sighandler_t h);
/* plan: deliver signo to thread tid at its k-th next yield point */
void usim_signal_plan(int tid, int signo, uint64_t after_yields);
/* fn runs in every exiting simulated thread after its last TSD destructor round (and after a signal delivered at
 * that point, fault "signal_after_last_tsd_destructor": then the argument is 1) */
void usim_thread_exit_hook(void (*fn)(int past_last_destructor_signal));
int usim_signal_depth(void);

/* End of a forked child's script (never returns). */
void usim_child_exit(void) __attribute__((noreturn));

/* Simulated CPU topology */
void usim_set_ncpus(int n);
/* pthread_create() issued by threads the library created itself (unnamed) may fail with EAGAIN (fault pthread_create_eagain) */
void usim_lib_threads_create_fail(int on);
/* oracle (C19): a thread created by library code (not by the scenario) must be created with signals blocked */
void usim_require_library_threads_block_signals(int on);

/* Tracked-arena helpers */
int usim_mem_is_live(const void *p);
/* a node pointer handed back by the code under test, checked before the harness dereferences it:
 * fails the run (wild-pointer / use-after-free) unless [p, p+len) lies in a live heap object */
void usim_node_check(const void *p, unsigned long len, const char *what);
/* Name an allocation for reports */
void usim_mem_tag(const void *p /* may be uninitialised memory */, const char *fmt, ...) __attribute__((format(printf, 2, 3)));
/* number of arena mapping requests (mmap/mremap) seen so far */
uint64_t usim_mmap_calls(void);

/* trace line (only emitted in replay/trace mode) */
void usim_trace(const char *fmt, ...) __attribute__((format(printf, 1, 2)));
int usim_tracing(void);

/* Scenario table */
struct usim_scenario {
	const char *name;
	const char *property;
	void (*run)(void);
};
extern const struct usim_scenario usim_scenarios[];
extern const int usim_nscenarios;

#ifdef __cplusplus
}
#endif
#endif
