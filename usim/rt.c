/*
 * rt.c — usim core: seeded scheduler over real parked pthreads, simulated
 * clock, x86-TSO store buffers, event log, run parameters, result record.
 * NOT instrumented, NOT symbol-redirected.
 */
#include "rt_internal.h"
#include <sys/syscall.h>
#include <linux/futex.h>
#include <stdarg.h>
#include <limits.h>

struct gstate G;
__thread struct sthr *cur;

#define STEP_DT		50ULL
#define RELAX_DT	1000ULL

/* ------------------------------------------------------------------ PRNG */

static inline uint64_t splitmix(uint64_t *s)
{
	uint64_t z = (*s += 0x9e3779b97f4a7c15ULL);
	z = (z ^ (z >> 30)) * 0xbf58476d1ce4e5b9ULL;
	z = (z ^ (z >> 27)) * 0x94d049bb133111ebULL;
	return z ^ (z >> 31);
}

uint64_t rt_rand(int stream)
{
	return splitmix(&G.prng[stream]);
}

uint64_t usim_rand(int stream) { return rt_rand(stream); }

uint32_t usim_below(int stream, uint32_t n)
{
	if (n <= 1)
		return 0;
	return (uint32_t) ((rt_rand(stream) >> 11) % n);
}

int usim_chance(int stream, uint32_t num, uint32_t den)
{
	return usim_below(stream, den) < num;
}

static inline uint32_t sched_below(uint32_t n) { return usim_below(US_SCHED, n); }

/* ------------------------------------------------------------------ log */

void rt_hash(uint64_t x)
{
	uint64_t h = G.hash;
	h ^= x;
	h *= 0x100000001b3ULL;
	h ^= h >> 29;
	G.hash = h;
}

void rt_trace(const char *fmt, ...)
{
	va_list ap;
	if (!G.trace)
		return;
	va_start(ap, fmt);
	vfprintf(stderr, fmt, ap);
	va_end(ap);
}

void usim_trace(const char *fmt, ...)
{
	va_list ap;
	if (!G.trace)
		return;
	fprintf(stderr, "[%6lu T%d] ", (unsigned long) G.seq, cur ? cur->id : -1);
	va_start(ap, fmt);
	vfprintf(stderr, fmt, ap);
	va_end(ap);
	fputc('\n', stderr);
}

int usim_tracing(void) { return G.trace; }

uint64_t usim_ev(uint32_t kind, uint64_t a, uint64_t b, uint64_t c)
{
	uint64_t s = ++G.seq;
	rt_hash(((uint64_t) kind << 32) ^ (cur ? cur->id : 99));
	rt_hash(a); rt_hash(b); rt_hash(c);
	if (G.trace)
		fprintf(stderr, "[%6lu T%d] ev %u %ld %ld %ld\n", (unsigned long) s,
			cur ? cur->id : -1, kind, (long) a, (long) b, (long) c);
	return s;
}

uint64_t usim_seq(void) { return ++G.seq; }

/* ------------------------------------------------------------------ params */

int64_t usim_param(const char *name, int64_t dflt)
{
	int i;
	int64_t v = dflt;

	for (i = 0; i < G.novr; i++)
		if (!strcmp(G.ovr[i].name, name)) {
			v = G.ovr[i].val;
			break;
		}
	for (i = 0; i < G.nused; i++)
		if (!strcmp(G.used[i].name, name))
			return v;
	if (G.nused < MAXPARAM) {
		snprintf(G.used[G.nused].name, sizeof(G.used[0].name), "%s", name);
		G.used[G.nused].val = v;
		G.nused++;
	}
	return v;
}

int64_t usim_paramf(int64_t dflt, const char *fmt, ...)
{
	char nm[48];
	va_list ap;
	va_start(ap, fmt);
	vsnprintf(nm, sizeof(nm), fmt, ap);
	va_end(ap);
	return usim_param(nm, dflt);
}

int usim_tier(void) { return G.tier; }

/* ------------------------------------------------------------------ counters */

static struct named_ctr *ctr_get(struct named_ctr *tab, int *n, const char *name)
{
	int i;
	for (i = 0; i < *n; i++)
		if (tab[i].name == name || !strcmp(tab[i].name, name))
			return &tab[i];
	if (*n >= MAXCTR)
		return &tab[MAXCTR - 1];
	snprintf(tab[*n].name, sizeof(tab[0].name), "%s", name);
	tab[*n].n = 0;
	tab[*n].enabled = 1;
	return &tab[(*n)++];
}

void usim_probe(const char *name) { ctr_get(G.probes, &G.nprobes, name)->n++; }
void usim_probe_n(const char *name, uint64_t n) { ctr_get(G.probes, &G.nprobes, name)->n += n; }

void usim_fault_enable(const char *kind, int on)
{
	char nm[56];
	snprintf(nm, sizeof(nm), "fault.%s", kind);
	on = (int) usim_param(nm, on);
	ctr_get(G.faults, &G.nfaults, kind)->enabled = on;
}

int usim_fault(const char *kind, uint32_t num, uint32_t den)
{
	int before = G.nfaults;
	struct named_ctr *c = ctr_get(G.faults, &G.nfaults, kind);
	uint64_t ord;
	int fire;

	if (G.nfaults != before)	/* first use without explicit enable: off, except pure scheduling choices */
		c->enabled = !strncmp(kind, "sched.", 6) || !strncmp(kind, "fork_", 5);

	if (!c->enabled || G.quiet || !G.active)
		return 0;
	ord = G.fault_calls++;
	if (G.use_expf) {
		int i;
		fire = 0;
		for (i = 0; i < G.nexpf; i++)
			if (G.expf[i] == ord) { fire = 1; break; }
	} else {
		fire = usim_below(US_FAULT, den) < num;
	}
	if (fire) {
		c->n++;
		rt_hash(0xfa17ULL ^ ord);
		if (G.record) {
			if (G.nrecf == G.caprecf) {
				G.caprecf = G.caprecf ? G.caprecf * 2 : 64;
				G.recf = realloc(G.recf, G.caprecf * sizeof(uint64_t));
			}
			G.recf[G.nrecf++] = ord;
		}
		rt_trace("[%6lu T%d] FAULT %s (#%lu)\n", (unsigned long) G.seq,
			cur ? cur->id : -1, kind, (unsigned long) ord);
	}
	return fire;
}

void usim_set_knob(int knob, unsigned long value)
{
	if (knob >= 0 && knob < 16)
		G.knob[knob] = value + 1;	/* 0 = library default */
}

unsigned long urcu_verif_knob(int knob, unsigned long dflt)
{
	if (knob >= 0 && knob < 16 && G.knob[knob])
		return G.knob[knob] - 1;	/* stored +1 so that 0 means default */
	return dflt;
}

void usim_describe(const char *fmt, ...)
{
	va_list ap;
	int n;
	if (G.descr_len >= (int) sizeof(G.descr) - 2)
		return;
	va_start(ap, fmt);
	n = vsnprintf(G.descr + G.descr_len, sizeof(G.descr) - G.descr_len, fmt, ap);
	va_end(ap);
	if (n > 0) {
		G.descr_len += n;
		if (G.descr_len > (int) sizeof(G.descr) - 1)
			G.descr_len = sizeof(G.descr) - 1;
	}
	if (G.trace) {
		va_start(ap, fmt);
		vfprintf(stderr, fmt, ap);
		va_end(ap);
	}
}

void usim_mark_nontrivial(void) { G.nontrivial = 1; }

void usim_thread_name(const char *fmt, ...)
{
	va_list ap;
	if (!cur)
		return;
	va_start(ap, fmt);
	vsnprintf(cur->name, sizeof(cur->name), fmt, ap);
	va_end(ap);
}

void usim_set_op(const char *fmt, ...)
{
	va_list ap;
	if (!cur)
		return;
	va_start(ap, fmt);
	vsnprintf(cur->opdesc, sizeof(cur->opdesc), fmt, ap);
	va_end(ap);
	if (G.trace)
		fprintf(stderr, "[%6lu T%d] op %s\n", (unsigned long) G.seq, cur->id, cur->opdesc);
}

int usim_tid(void) { return cur ? cur->id : -1; }
int usim_nthreads(void) { return G.nthr; }
uint64_t usim_now(void) { return G.now; }
uint64_t usim_steps(void) { return G.steps; }
uint64_t usim_my_steps(void) { return cur ? cur->yields : 0; }
uint64_t usim_my_relaxes(void) { return cur ? cur->relaxes : 0; }
uint64_t usim_my_blocks(void) { return cur ? cur->blocks : 0; }
int usim_is_tso(void) { return G.tso; }
void usim_set_ncpus(int n) { G.ncpus = n; }
uint64_t usim_mmap_calls(void) { return G.mmap_calls; }

/* ------------------------------------------------------------------ result */

static void out_str(char **p, char *end, const char *fmt, ...)
{
	va_list ap;
	int n;
	if (*p >= end)
		return;
	va_start(ap, fmt);
	n = vsnprintf(*p, end - *p, fmt, ap);
	va_end(ap);
	if (n > 0)
		*p += (n < end - *p) ? n : (end - *p);
}

static const char *state_name(int s)
{
	switch (s) {
	case T_RUNNABLE: return "runnable";
	case T_BLK_MUTEX: return "mutex";
	case T_BLK_FUTEX: return "futex";
	case T_BLK_COND: return "cond";
	case T_BLK_JOIN: return "join";
	case T_SLEEP: return "sleep";
	case T_EXITED: return "exited";
	}
	return "?";
}

static void sanitize(char *s)
{
	for (; *s; s++)
		if (*s == '\n' || *s == '\r')
			*s = ' ';
}

void rt_finish(int status, const char *cls, const char *msg)
{
	static char buf[1 << 17];
	char *p = buf, *end = buf + sizeof(buf) - 64;
	int i;
	static int finishing;

	if (finishing)
		_exit(3);
	finishing = 1;
	G.active = 0;
	if (G.in_fork_child) {
		/* a forked child reports only violations itself; see usim_fork() */
		if (status == RS_OK)
			_exit(41);
		if (status == RS_INCONCLUSIVE)
			_exit(43);
	}
	out_str(&p, end, "R %d %016lx %lu %lu %lu %d %d %d %d %lu %lu\n", status,
		(unsigned long) G.hash, (unsigned long) G.steps,
		(unsigned long) G.switches, (unsigned long) G.now,
		G.nontrivial, G.nthr, G.tso, G.strategy,
		(unsigned long) G.quiet_used_steps, (unsigned long) G.stale_loads);
	if (cls) {
		char m[2048];
		snprintf(m, sizeof(m), "%s", msg ? msg : "");
		sanitize(m);
		out_str(&p, end, "C %s\nM %s\n", cls, m);
	}
	for (i = 0; i < G.nfaults; i++)
		if (G.faults[i].n)
			out_str(&p, end, "F %s %lu\n", G.faults[i].name, (unsigned long) G.faults[i].n);
	for (i = 0; i < G.nprobes; i++)
		if (G.probes[i].n)
			out_str(&p, end, "P %s %lu\n", G.probes[i].name, (unsigned long) G.probes[i].n);
	out_str(&p, end, "Y");
	for (i = 0; i < Y_NKINDS; i++)
		out_str(&p, end, " %lu", (unsigned long) G.ykinds[i]);
	out_str(&p, end, "\n");
	if (G.want_sample || cls) {
		for (i = 0; i < G.nused; i++)
			out_str(&p, end, "Q %s %ld\n", G.used[i].name, (long) G.used[i].val);
		if (G.descr_len) {
			char *d = G.descr;
			sanitize(d);
			out_str(&p, end, "S %s\n", d);
		}
	}
	if (G.record) {
		out_str(&p, end, "D");
		for (i = 0; i < G.nrec && p < end - 64; i++)
			out_str(&p, end, " %lu:%d", (unsigned long) G.rec[i].step, G.rec[i].choice);
		out_str(&p, end, "\nX");
		for (i = 0; i < G.nrecf && p < end - 64; i++)
			out_str(&p, end, " %lu", (unsigned long) G.recf[i]);
		out_str(&p, end, "\n");
	}
	if (status == RS_VIOLATION || status == RS_BUG) {
		for (i = 0; i < G.nthr; i++) {
			struct sthr *t = &G.thr[i];
			out_str(&p, end, "T %d %s %s yields=%lu sb=%d\n", t->id,
				t->name[0] ? t->name : "-", state_name(t->state),
				(unsigned long) t->yields, t->sb_n);
		}
	}
	out_str(&p, end, "END\n");
	if (G.result_fd >= 0) {
		size_t len = p - buf, off = 0;
		while (off < len) {
			ssize_t w = write(G.result_fd, buf + off, len - off);
			if (w <= 0)
				break;
			off += w;
		}
	}
	if (G.trace && cls)
		fprintf(stderr, "== %s: %s: %s\n",
			status == RS_VIOLATION ? "VIOLATION" : "END", cls, msg ? msg : "");
	_exit(G.in_fork_child ? 42 : 0);
}

void usim_fail(const char *cls, const char *fmt, ...)
{
	char msg[2048];
	va_list ap;
	va_start(ap, fmt);
	vsnprintf(msg, sizeof(msg), fmt, ap);
	va_end(ap);
	rt_finish(RS_VIOLATION, cls, msg);
}

void usim_bug(const char *fmt, ...)
{
	char msg[2048];
	va_list ap;
	va_start(ap, fmt);
	vsnprintf(msg, sizeof(msg), fmt, ap);
	va_end(ap);
	rt_finish(RS_BUG, "machinery", msg);
}

/* ------------------------------------------------------------------ parking */

static inline long sys_futex(volatile uint32_t *addr, int op, uint32_t val)
{
	return syscall(SYS_futex, addr, op | FUTEX_PRIVATE_FLAG, val, NULL, NULL, 0);
}

static void park_self(struct sthr *me)
{
	int spins = 0;
	int saved_errno = errno;	/* the simulated thread's errno must not see our syscalls */
	while (__atomic_load_n(&me->park, __ATOMIC_ACQUIRE) == 0) {
		if (spins++ < 200) {
			__builtin_ia32_pause();
			continue;
		}
		sys_futex(&me->park, FUTEX_WAIT, 0);
	}
	__atomic_store_n(&me->park, 0, __ATOMIC_RELAXED);
	errno = saved_errno;
}

static void unpark(struct sthr *t)
{
	int saved_errno = errno;
	__atomic_store_n(&t->park, 1, __ATOMIC_RELEASE);
	sys_futex(&t->park, FUTEX_WAKE, 1);
	errno = saved_errno;
}

/* ------------------------------------------------------------------ store buffers */

static inline void mem_store(uintptr_t a, uint64_t v, unsigned sz)
{
	rt_acc_addr = a;
	switch (sz) {
	case 1: __atomic_store_n((uint8_t *) a, (uint8_t) v, __ATOMIC_RELAXED); break;
	case 2: __atomic_store_n((uint16_t *) a, (uint16_t) v, __ATOMIC_RELAXED); break;
	case 4: __atomic_store_n((uint32_t *) a, (uint32_t) v, __ATOMIC_RELAXED); break;
	default: __atomic_store_n((uint64_t *) a, v, __ATOMIC_RELAXED); break;
	}
}

static inline uint64_t mem_load(uintptr_t a, unsigned sz)
{
	rt_acc_addr = a;
	switch (sz) {
	case 1: return __atomic_load_n((uint8_t *) a, __ATOMIC_RELAXED);
	case 2: return __atomic_load_n((uint16_t *) a, __ATOMIC_RELAXED);
	case 4: return __atomic_load_n((uint32_t *) a, __ATOMIC_RELAXED);
	default: return __atomic_load_n((uint64_t *) a, __ATOMIC_RELAXED);
	}
}

static void sb_commit_oldest(struct sthr *t)
{
	struct sb_ent e = t->sb[0];
	memmove(&t->sb[0], &t->sb[1], sizeof(t->sb[0]) * (t->sb_n - 1));
	t->sb_n--;
	/* the target may have been freed meanwhile: that is a use-after-free */
	mem_check(e.addr, e.size, 1);
	mem_store(e.addr, e.val, e.size);
}

void rt_sb_drain_all(struct sthr *t)
{
	while (t->sb_n)
		sb_commit_oldest(t);
}

void rt_sb_drain_everyone(void)
{
	int i;
	for (i = 0; i < G.nthr; i++)
		rt_sb_drain_all(&G.thr[i]);
}

static inline int overlaps(uintptr_t a, unsigned sa, uintptr_t b, unsigned sb)
{
	return a < b + sb && b < a + sa;
}

static void sb_drain_overlap(struct sthr *t, uintptr_t a, unsigned sz)
{
	int i, last = -1;
	for (i = 0; i < t->sb_n; i++)
		if (overlaps(a, sz, t->sb[i].addr, t->sb[i].size))
			last = i;
	for (i = 0; i <= last; i++)
		sb_commit_oldest(t);
}

/* ------------------------------------------------------------------ scheduler */

static inline int eligible(struct sthr *t)
{
	return t->state == T_RUNNABLE && !t->frozen;
}

static void deadlock(void) __attribute__((noreturn));
static void deadlock(void)
{
	char msg[1024];
	int i, n = 0;
	n += snprintf(msg + n, sizeof(msg) - n, "no runnable thread and no timer:");
	for (i = 0; i < G.nthr && n < (int) sizeof(msg) - 64; i++) {
		struct sthr *t = &G.thr[i];
		if (t->state == T_EXITED)
			continue;
		n += snprintf(msg + n, sizeof(msg) - n, " T%d(%s)=%s in '%s'", t->id,
			t->name[0] ? t->name : "-", state_name(t->state), t->opdesc);
	}
	rt_finish(RS_VIOLATION, "deadlock", msg);
}

static int next_deadline(uint64_t *out);

static void wake_sleepers(void)
{
	int i;
	for (i = 0; i < G.nthr; i++) {
		struct sthr *t = &G.thr[i];
		if (t->has_deadline && t->state != T_RUNNABLE && t->state != T_EXITED &&
		    t->deadline <= G.now) {
			t->has_deadline = 0;
			t->timed_out = 1;
			t->state = T_RUNNABLE;
			G.steps_at_last_wake = G.steps;
		}
	}
}

static int next_deadline(uint64_t *out)
{
	int i, found = 0;
	uint64_t best = ~0ULL;
	for (i = 0; i < G.nthr; i++) {
		struct sthr *t = &G.thr[i];
		if (t->has_deadline && t->state != T_RUNNABLE && t->state != T_EXITED) {
			if (t->deadline < best)
				best = t->deadline;
			found = 1;
		}
	}
	*out = best;
	return found;
}

static void quiet_enter(void);

static void step_common(int kind)
{
	G.steps++;
	G.ykinds[kind]++;
	G.now += (kind == Y_RELAX) ? RELAX_DT : STEP_DT;
	if (G.quiet) {
		G.quiet_used_steps = G.steps - G.quiet_start_step;
		if (G.quiet_used_steps > G.quiet_steps ||
		    G.now - G.quiet_start_now > G.quiet_ns) {
			char msg[1024];
			int i, n;
			n = snprintf(msg, sizeof(msg),
				"no completion %lu steps / %lu simulated ns after faults stopped and scheduling became fair (%s); still pending:",
				(unsigned long) G.quiet_used_steps,
				(unsigned long) (G.now - G.quiet_start_now),
				G.quiet_forced ? "phase forced because the run exceeded half of the step cap" : "every script had issued its last operation");
			for (i = 0; i < G.nthr && n < (int) sizeof(msg) - 100; i++) {
				struct sthr *t = &G.thr[i];
				if (t->state == T_EXITED || (!t->opdesc[0] && !t->name[0]))
					continue;
				n += snprintf(msg + n, sizeof(msg) - n, " T%d(%s)=%s in '%s'", t->id,
					t->name[0] ? t->name : "-", state_name(t->state), t->opdesc);
			}
			rt_finish(RS_VIOLATION, "liveness", msg);
		}
	} else if (G.steps > G.step_cap / 2 || G.now > G.time_cap) {
		/*
		 * Far beyond any run observed on a correct tree: stop injecting
		 * faults and schedule fairly. If the run still does not finish
		 * within the quiet-phase budget, something waits forever.
		 */
		usim_probe("quiet.forced_by_step_cap");
		G.quiet_forced = 1;
		quiet_enter();
	}
	wake_sleepers();
	if (G.ntimed_frozen && G.solo_tid < 0) {
		int i;
		for (i = 0; i < G.nthr; i++)
			if (G.thr[i].freeze_until && G.steps >= G.thr[i].freeze_until) {
				G.thr[i].freeze_until = 0;
				G.thr[i].frozen = 0;
				G.ntimed_frozen--;
			}
	}
	/*
	 * A thread that never blocks (e.g. a polling or spinning helper) must not
	 * stretch every sleep to millions of steps: no deadline in liburcu reads a
	 * clock, so when nobody has been woken for a long while, let time pass.
	 */
	if (G.steps - G.steps_at_last_wake > 3000) {
		uint64_t dl;
		G.steps_at_last_wake = G.steps;
		if (next_deadline(&dl) && dl > G.now) {
			G.now = dl;
			wake_sleepers();
		}
	}
}

/* default policy: run to block; RELAX/PAUSE rotate; lazy drains */
static int default_choice(struct sthr *me, int kind)
{
	int i, n = G.nthr, start = me ? me->id : 0;

	if (me && eligible(me) && kind != Y_RELAX && kind != Y_PAUSE)
		return me->id;
	for (i = 1; i <= n; i++) {
		struct sthr *t = &G.thr[(start + i) % n];
		if (t != me && eligible(t))
			return t->id;
	}
	if (me && eligible(me))
		return me->id;
	for (i = 0; i < n; i++)
		if (G.thr[i].sb_n)
			return DRAIN_CHOICE(i);
	return NONE_CHOICE;
}

static int valid_choice(int c)
{
	if (c >= 0 && c < G.nthr)
		return eligible(&G.thr[c]);
	if (IS_DRAIN(c) && DRAIN_TID(c) < G.nthr)
		return G.thr[DRAIN_TID(c)].sb_n > 0;
	return 0;
}

static int random_other(struct sthr *me)
{
	int cand[MAXT], nc = 0, i;
	for (i = 0; i < G.nthr; i++)
		if (&G.thr[i] != me && eligible(&G.thr[i]))
			cand[nc++] = i;
	if (!nc)
		return NONE_CHOICE;
	return cand[sched_below(nc)];
}

static int random_drain(void)
{
	int cand[MAXT], nc = 0, i;
	for (i = 0; i < G.nthr; i++)
		if (G.thr[i].sb_n)
			cand[nc++] = i;
	if (!nc)
		return NONE_CHOICE;
	return DRAIN_CHOICE(cand[sched_below(nc)]);
}

static void stall_logic(struct sthr *me)
{
	int i;
	if (G.stall_victim >= 0) {
		if (G.steps >= G.stall_until) {
			G.thr[G.stall_victim].frozen = 0;
			G.stall_victim = -2;	/* done */
		}
		return;
	}
	if (G.stall_victim == -1 && G.steps >= G.stall_at && me && me->id != 0 &&
	    eligible(me) && G.solo_tid < 0) {
		/* freeze the running thread right here, if somebody else can run */
		for (i = 0; i < G.nthr; i++)
			if (&G.thr[i] != me && G.thr[i].state != T_EXITED && i != 0)
				break;
		if (i == G.nthr)
			return;
		rt_sb_drain_all(me);
		me->frozen = 1;
		G.stall_victim = me->id;
		G.stall_until = G.steps + G.stall_len;
		usim_probe("sched.stall_victim_frozen");
	}
}

static int decide(struct sthr *me, int kind)
{
	int dflt = default_choice(me, kind), c = dflt;
	int mode = G.strategy;

	if (G.quiet)
		mode = 4;
	else if (G.solo_tid >= 0)
		mode = 5;
	else if (G.nosched_after && G.steps > G.nosched_after)
		mode = 3;

	switch (mode) {
	case 0:	/* random walk */
		if (G.tso && sched_below(256) < G.p_drain) {
			int d = random_drain();
			if (d != NONE_CHOICE) { c = d; break; }
		}
		if (me && eligible(me) && kind != Y_RELAX && kind != Y_PAUSE &&
		    sched_below(256) < (!G.sync_bias ? G.stick : kind == Y_SYS ? G.stick / 3 : 256 - (256 - G.stick) / 6)) {
			c = me->id;
		} else {
			int o = random_other(me);
			if (o != NONE_CHOICE) {
				if (me && eligible(me) && (kind == Y_RELAX || kind == Y_PAUSE) &&
				    sched_below(8) == 0)
					c = me->id;
				else
					c = o;
			} else if (me && eligible(me)) {
				c = me->id;
			} else {
				c = dflt;
			}
		}
		break;
	case 1: { /* PCT */
		int i, best = -1;
		while (G.pct_ncp && G.steps >= G.pct_cp[G.pct_ncp - 1]) {
			long hi = LONG_MIN; int hb = -1;
			G.pct_ncp--;
			for (i = 0; i < G.nthr; i++)
				if (eligible(&G.thr[i]) && G.thr[i].prio > hi) {
					hi = G.thr[i].prio; hb = i;
				}
			if (hb >= 0)
				G.thr[hb].prio = G.pct_low--;
		}
		if (me && (kind == Y_RELAX || kind == Y_PAUSE))
			me->prio = G.pct_low--;
		if (G.tso && sched_below(256) < G.p_drain) {
			int d = random_drain();
			if (d != NONE_CHOICE) { c = d; break; }
		}
		for (i = 0; i < G.nthr; i++)
			if (eligible(&G.thr[i]) && (best < 0 || G.thr[i].prio > G.thr[best].prio))
				best = i;
		c = best >= 0 ? best : dflt;
		break;
	}
	case 2:	/* stall-one: sliced round robin plus one long freeze */
		stall_logic(me);
		dflt = default_choice(me, kind);
		c = dflt;
		if (me && eligible(me) && c == me->id) {
			if (G.slice_left == 0) {
				int o = default_choice(me, Y_PAUSE);
				G.slice_left = 1 + sched_below(G.slice);
				if (o != NONE_CHOICE)
					c = o;
			} else {
				G.slice_left--;
			}
		}
		if (G.tso && sched_below(256) < G.p_drain) {
			int d = random_drain();
			if (d != NONE_CHOICE)
				c = d;
		}
		break;
	case 3:	/* explicit: default policy plus listed deviations */
		while (G.iexp < G.nexp && G.exp[G.iexp].step < G.steps)
			G.iexp++;
		if (G.iexp < G.nexp && G.exp[G.iexp].step == G.steps) {
			if (valid_choice(G.exp[G.iexp].choice))
				c = G.exp[G.iexp].choice;
			G.iexp++;
		}
		break;
	case 4:	/* quiet: fair sliced round robin, eager drains */
		if (me && eligible(me) && c == me->id) {
			if (G.slice_left == 0) {
				int o = default_choice(me, Y_PAUSE);
				G.slice_left = 16;
				if (o != NONE_CHOICE)
					c = o;
			} else {
				G.slice_left--;
			}
		}
		break;
	case 5:	/* solo */
		c = dflt;
		break;
	}
	if (!valid_choice(c))
		c = dflt;
	if (G.record && c != dflt) {
		if (G.nrec == G.caprec) {
			G.caprec = G.caprec ? G.caprec * 2 : 256;
			G.rec = realloc(G.rec, G.caprec * sizeof(G.rec[0]));
		}
		G.rec[G.nrec].step = G.steps;
		G.rec[G.nrec].choice = c;
		G.nrec++;
	}
	return c;
}

static void switch_to(struct sthr *me, int c, int kind)
{
	struct sthr *t = &G.thr[c];
	G.switches++;
	rt_hash(0x5317c4ULL ^ ((uint64_t) (me ? me->id : 77) << 8) ^ c ^ (G.steps << 16));
	if (G.trace)
		fprintf(stderr, "[%6lu] step %lu: switch T%d -> T%d (kind %d)\n",
			(unsigned long) G.seq, (unsigned long) G.steps, me ? me->id : -1, c, kind);
	unpark(t);
}

/* nothing can run: advance the clock, thaw, or report a deadlock */
static void nothing_runnable(void)
{
	uint64_t dl;
	int i, thawed = 0;

	if (next_deadline(&dl)) {
		if (dl > G.now)
			G.now = dl;
		wake_sleepers();
		return;
	}
	for (i = 0; i < G.nthr; i++)
		if (G.thr[i].frozen && G.thr[i].state == T_RUNNABLE) {
			G.thr[i].frozen = 0;
			if (G.thr[i].freeze_until) {
				G.thr[i].freeze_until = 0;
				G.ntimed_frozen--;
			}
			thawed = 1;
		}
	if (thawed) {
		if (G.solo_tid >= 0)
			usim_probe("solo.blocked_thaw");
		if (G.stall_victim >= 0)
			G.stall_victim = -2;
		return;
	}
	deadlock();
}

void rt_signal_check(struct sthr *me);

void rt_sched_point(int kind)
{
	struct sthr *me = cur;
	int c;

	me->yields++;
	if (kind == Y_RELAX)
		me->relaxes++;
	if (me->stall_armed) {
		/* "after" variant: the planned access has executed, the suspension starts at the access that follows it */
		me->stall_armed = 0;
		me->stall_ord = 1;
		me->stall_mask = ~0u;
	} else if (me->stall_after && me->stall_ord == 1 && (me->stall_mask & (1u << kind)) &&
		   !G.quiet && G.solo_tid < 0 && !me->frozen && me->sigdepth == 0) {
		me->stall_ord = 0;
		me->stall_armed = 1;
	}
	if (me->stall_ord && (me->stall_mask & (1u << kind)) && --me->stall_ord == 0 &&
	    !G.quiet && G.solo_tid < 0 && !me->frozen && me->sigdepth == 0) {
		int i;
		/* somebody else must exist; if they are all blocked the scheduler thaws us (nothing_runnable) */
		for (i = 1; i < G.nthr; i++)
			if (&G.thr[i] != me && G.thr[i].state != T_EXITED)
				break;
		if (i < G.nthr) {
			rt_sb_drain_all(me);	/* a descheduled thread's stores become visible */
			me->frozen = 1;
			me->freeze_until = G.steps + me->stall_len;
			G.ntimed_frozen++;
			usim_probe("sched.planned_stall_inside_operation");
			rt_trace("[%6lu T%d] planned stall: frozen for %u steps at step %lu\n", (unsigned long) G.seq, me->id, me->stall_len, (unsigned long) G.steps);
		}
	}
	for (;;) {
		step_common(kind);
		c = decide(me, kind);
		if (c == me->id)
			break;
		if (IS_DRAIN(c)) {
			sb_commit_oldest(&G.thr[DRAIN_TID(c)]);
			continue;
		}
		if (c == NONE_CHOICE) {	/* me frozen and nobody else */
			nothing_runnable();
			continue;
		}
		switch_to(me, c, kind);
		park_self(me);
		break;
	}
}

void rt_block(struct sthr *me)
{
	int c;

	rt_sb_drain_all(me);
	me->blocks++;
	for (;;) {
		if (me->state == T_RUNNABLE && !me->frozen)
			return;
		step_common(Y_BLOCK);
		if (me->state == T_RUNNABLE && !me->frozen)
			return;
		c = decide(me, Y_BLOCK);
		if (IS_DRAIN(c)) {
			sb_commit_oldest(&G.thr[DRAIN_TID(c)]);
			continue;
		}
		if (c == NONE_CHOICE) {
			nothing_runnable();
			continue;
		}
		if (c == me->id)
			return;
		switch_to(me, c, Y_BLOCK);
		park_self(me);
	}
}

/* the calling thread is finished: hand the baton to somebody, never returns to sim */
static void exit_handoff(struct sthr *me)
{
	int c;
	for (;;) {
		step_common(Y_EXIT);
		c = decide(me, Y_EXIT);
		if (IS_DRAIN(c)) {
			sb_commit_oldest(&G.thr[DRAIN_TID(c)]);
			continue;
		}
		if (c == NONE_CHOICE) {
			nothing_runnable();
			continue;
		}
		switch_to(me, c, Y_EXIT);
		return;
	}
}

void rt_make_runnable(struct sthr *t)
{
	t->state = T_RUNNABLE;
	t->has_deadline = 0;
	t->wait_obj = NULL;
}

int rt_count_waiters(const void *obj, int state)
{
	int i, n = 0;
	for (i = 0; i < G.nthr; i++)
		if (G.thr[i].state == state && G.thr[i].wait_obj == obj)
			n++;
	return n;
}

void rt_wake_waiters(const void *obj, int state, int max, int random_pick)
{
	int cand[MAXT], nc = 0, i, woken = 0;
	for (i = 0; i < G.nthr; i++)
		if (G.thr[i].state == state && G.thr[i].wait_obj == obj)
			cand[nc++] = i;
	while (nc && woken < max) {
		int k = 0;
		if (random_pick && nc > 1 && woken + nc > max &&
		    usim_fault("sched.wake_pick_last", 1, 2))
			k = nc - 1;
		rt_make_runnable(&G.thr[cand[k]]);
		for (i = k; i < nc - 1; i++)
			cand[i] = cand[i + 1];
		nc--;
		woken++;
	}
}

/* ------------------------------------------------------------------ quiet / solo / freeze */

static void quiet_enter(void)
{
	int i;
	if (G.quiet)
		return;
	G.quiet = 1;
	G.quiet_start_step = G.steps;
	G.quiet_start_now = G.now;
	G.slice_left = 0;
	rt_sb_drain_everyone();
	for (i = 0; i < G.nthr; i++)
	{
		G.thr[i].frozen = 0;
		G.thr[i].freeze_until = 0;
		G.thr[i].stall_ord = 0;
	}
	G.ntimed_frozen = 0;
	if (G.stall_victim >= 0)
		G.stall_victim = -2;
	usim_probe("quiet.entered");
	rt_trace("[%6lu] QUIET phase begins at step %lu\n", (unsigned long) G.seq, (unsigned long) G.steps);
}

void usim_quiet_expect(int n) { G.quiet_expect = n; G.quiet_votes = 0; }

void usim_quiet_vote(void)
{
	if (++G.quiet_votes >= G.quiet_expect && G.quiet_expect > 0)
		quiet_enter();
}

int usim_in_quiet(void) { return G.quiet; }

void usim_quiet_budget(uint64_t steps, uint64_t ns)
{
	G.quiet_steps = steps;
	G.quiet_ns = ns;
}

void usim_freeze(int tid, int on)
{
	if (tid < 0 || tid >= G.nthr || &G.thr[tid] == cur)
		return;
	if (on)
		rt_sb_drain_all(&G.thr[tid]);
	G.thr[tid].frozen = on;
}

void usim_solo_begin(void)
{
	int i;
	for (i = 0; i < G.nthr; i++)
		if (&G.thr[i] != cur && G.thr[i].state != T_EXITED) {
			rt_sb_drain_all(&G.thr[i]);
			G.thr[i].frozen = 1;
		}
	G.solo_tid = cur->id;
}

void usim_solo_end(void)
{
	int i;
	for (i = 0; i < G.nthr; i++)
		G.thr[i].frozen = 0;
	G.solo_tid = -1;
}

void usim_lib_threads_create_fail(int on) { G.lib_create_fail = on; }
void usim_require_library_threads_block_signals(int on) { G.lib_threads_block_signals = on; }

void usim_allow_create_fail(int on)
{
	if (cur)
		cur->allow_create_fail = on;
}

void usim_yield(void)
{
	if (cur && G.active)
		rt_sched_point(Y_SYS);
}

void usim_stall_plan(int ordinal, uint32_t steps)
{
	struct sthr *me = cur;
	if (!me || !G.active || ordinal <= 0)
		return;
	me->stall_mask = (1u << Y_ATOMIC_LD) | (1u << Y_ATOMIC_ST) | (1u << Y_RMW) | (1u << Y_FENCE);
	me->stall_ord = ordinal;
	me->stall_len = steps;
	/*
	 * Half of the planned suspensions begin right AFTER the chosen access has executed, i.e. before
	 * the very next access of any kind, plain ones included: the state in which something has just
	 * been published and what follows it in program order (its initialisation, if that is
	 * misplaced) has not happened yet.
	 */
	me->stall_after = steps & 1;
	me->stall_armed = 0;
}

void usim_stall_cancel(void)
{
	if (cur) {
		cur->stall_ord = 0;
		cur->stall_armed = 0;
	}
}

void usim_pause(void)
{
	if (cur && G.active)
		rt_sched_point(Y_PAUSE);
}

/* ------------------------------------------------------------------ signals (simulated) */

void usim_signal_handler(int signo, usim_sighandler_t h)
{
	if (signo > 0 && signo <= 64)
		G.sighandler[signo] = h;
}

static void sig_recompute(struct sthr *t)
{
	int i;
	uint64_t best = ~0ULL;
	for (i = 0; i < t->nsigplan; i++)
		if (t->sigplan[i].at_acc < best)
			best = t->sigplan[i].at_acc;
	t->next_sig_acc = best;
}

void usim_signal_plan(int tid, int signo, uint64_t after)
{
	struct sthr *t;
	if (tid < 0 || tid >= G.nthr)
		return;
	t = &G.thr[tid];
	if (t->nsigplan >= MAXSIGPLAN)
		return;
	t->sigplan[t->nsigplan].signo = signo;
	t->sigplan[t->nsigplan].at_acc = t->accs + after;
	t->nsigplan++;
	sig_recompute(t);
}

int usim_signal_depth(void) { return cur ? cur->sigdepth : 0; }

void rt_signal_check(struct sthr *me)
{
	int i;

	if (me->accs < me->next_sig_acc)
		return;
	for (i = 0; i < me->nsigplan; i++) {
		struct sigplan sp = me->sigplan[i];
		uint64_t bit = 1ULL << (sp.signo - 1), saved;

		if (sp.at_acc > me->accs)
			continue;
		if (me->sigmask & bit) {
			usim_probe("signal.deferred_by_mask");
			continue;	/* stays pending until unmasked */
		}
		if (me->sigdepth >= 3)
			continue;
		me->sigplan[i] = me->sigplan[--me->nsigplan];
		sig_recompute(me);
		rt_sb_drain_all(me);
		saved = me->sigmask;
		me->sigmask |= bit;
		me->sigdepth++;
		ctr_get(G.faults, &G.nfaults, "signal_delivered")->n++;
		rt_hash(0x516ULL ^ me->accs);
		rt_trace("[%6lu T%d] SIGNAL %d delivered at access %lu depth %d\n",
			(unsigned long) G.seq, me->id, sp.signo, (unsigned long) me->accs, me->sigdepth);
		if (G.sighandler[sp.signo]) {
			/* a correct handler preserves errno (POSIX); model that here */
			int saved_errno = errno;
			G.sighandler[sp.signo](sp.signo);
			errno = saved_errno;
		}
		rt_sb_drain_all(me);
		me->sigdepth--;
		me->sigmask = saved;
		i = -1;	/* restart scan */
		if (me->accs < me->next_sig_acc)
			return;
	}
	/* everything due is masked: look again at the next access */
	if (me->next_sig_acc <= me->accs)
		me->next_sig_acc = me->accs + 1;
}

/* ------------------------------------------------------------------ access hooks */

/*
 * Stacks. A store (plain or atomic) to the issuing thread's own stack is never
 * buffered and, being invisible to everybody else until the frame is
 * published, does not force the thread's store buffer out either. To keep
 * x86-TSO store order observable-correct, any access by ANOTHER thread to an
 * address inside a thread's stack first drains the owner's buffer (a drain at
 * an arbitrary moment is always TSO-legal): nobody can then see a newer stack
 * store without the owner's older buffered stores.
 */
static inline int on_own_stack(struct sthr *me, uintptr_t a)
{
	return a >= me->stk_lo && a < me->stk_hi;
}

static inline void foreign_stack_sync(struct sthr *me, uintptr_t a)
{
	struct sthr *o;
	if (a - STACK_BASE < (uintptr_t) MAXT * STACK_SIZE) {
		unsigned idx = (unsigned) ((a - STACK_BASE) / STACK_SIZE);
		if (idx >= (unsigned) G.nthr)
			return;
		o = &G.thr[idx];
		if (a < o->stk_lo || a >= o->stk_hi)
			return;		/* guard page or the TLS area above the stack proper */
	} else if (a >= G.thr[0].stk_lo && a < G.thr[0].stk_hi) {
		o = &G.thr[0];
	} else {
		return;
	}
	if (o != me && o->sb_n) {
		usim_probe("tso.foreign_stack_access_drained_owner");
		rt_sb_drain_all(o);
	}
}

static inline int plain_yield_draw(void)
{
	if (G.p_plain == 0)
		return 0;
	if (G.p_plain >= 256)
		return 1;
	return (splitmix(&G.prng[US_NSTREAMS]) & 255) < G.p_plain;
}

static inline void plain_access(uintptr_t a, unsigned sz, int wr)
{
	struct sthr *me = cur;

	if (!me || !G.active)
		return;
	mem_check(a, sz, wr);
	me->accs++;
	if (me->accs >= me->next_sig_acc)
		rt_signal_check(me);
	if (me->stall_armed || plain_yield_draw())
		rt_sched_point(Y_PLAIN);
	if (G.tso)
		foreign_stack_sync(me, a);
	if (me->sb_n) {
		if (!wr)
			sb_drain_overlap(me, a, sz);
		else if (!on_own_stack(me, a))
			rt_sb_drain_all(me);
	}
}

#define PLAIN_HOOKS(n)								\
void __tsan_read##n(void *a) { plain_access((uintptr_t) a, n, 0); }		\
void __tsan_write##n(void *a) { plain_access((uintptr_t) a, n, 1); }		\
void __tsan_unaligned_read##n(void *a) { plain_access((uintptr_t) a, n, 0); }	\
void __tsan_unaligned_write##n(void *a) { plain_access((uintptr_t) a, n, 1); }

PLAIN_HOOKS(1)
PLAIN_HOOKS(2)
PLAIN_HOOKS(4)
PLAIN_HOOKS(8)
PLAIN_HOOKS(16)

void __tsan_read_range(void *a, unsigned long sz)
{
	if (sz)
		plain_access((uintptr_t) a, sz > 0x7fffffff ? 0x7fffffff : (unsigned) sz, 0);
}

void __tsan_write_range(void *a, unsigned long sz)
{
	if (sz)
		plain_access((uintptr_t) a, sz > 0x7fffffff ? 0x7fffffff : (unsigned) sz, 1);
}

void __tsan_init(void) { }
void __tsan_func_entry(void *pc) { (void) pc; }
void __tsan_func_exit(void) { }
void __tsan_vptr_update(void **vptr, void *val) { (void) vptr; (void) val; }
void __tsan_vptr_read(void **vptr) { (void) vptr; }

static inline uint64_t atomic_load_common(uintptr_t a, unsigned sz)
{
	struct sthr *me = cur;
	int i;

	if (!me || !G.active)
		return mem_load(a, sz);
	mem_check(a, sz, 0);
	me->accs++;
	if (me->accs >= me->next_sig_acc)
		rt_signal_check(me);
	rt_sched_point(Y_ATOMIC_LD);
	if (G.tso)
		foreign_stack_sync(me, a);
	for (i = me->sb_n - 1; i >= 0; i--) {
		if (me->sb[i].addr == a && me->sb[i].size == sz) {
			usim_probe("tso.forwarded_load");
			return me->sb[i].val;
		}
		if (overlaps(a, sz, me->sb[i].addr, me->sb[i].size)) {
			sb_drain_overlap(me, a, sz);
			break;
		}
	}
	if (G.tso) {
		int t, k;
		for (t = 0; t < G.nthr; t++) {
			if (&G.thr[t] == me)
				continue;
			for (k = 0; k < G.thr[t].sb_n; k++)
				if (overlaps(a, sz, G.thr[t].sb[k].addr, G.thr[t].sb[k].size)) {
					G.stale_loads++;
					t = G.nthr;
					break;
				}
		}
	}
	return mem_load(a, sz);
}

static inline void atomic_store_common(uintptr_t a, uint64_t v, unsigned sz, int mo)
{
	struct sthr *me = cur;

	if (!me || !G.active) {
		mem_store(a, v, sz);
		return;
	}
	mem_check(a, sz, 1);
	me->accs++;
	if (me->accs >= me->next_sig_acc)
		rt_signal_check(me);
	rt_sched_point(Y_ATOMIC_ST);
	if (G.tso)
		foreign_stack_sync(me, a);
	if (G.tso && !G.quiet && G.solo_tid < 0 && mo != __ATOMIC_SEQ_CST && on_own_stack(me, a)) {
		/* own stack: performed at once, older buffered stores may stay buffered */
		mem_store(a, v, sz);
		return;
	}
	if (!G.tso || G.quiet || mo == __ATOMIC_SEQ_CST || G.solo_tid >= 0) {
		rt_sb_drain_all(me);
		mem_check(a, sz, 1);
		mem_store(a, v, sz);
		return;
	}
	if (me->sb_n == SB_MAX)
		sb_commit_oldest(me);
	me->sb[me->sb_n].addr = a;
	me->sb[me->sb_n].val = v;
	me->sb[me->sb_n].size = sz;
	me->sb_n++;
}

/* a locked RMW executed by the runtime on behalf of compiler builtins */
static inline void rmw_prologue(uintptr_t a, unsigned sz)
{
	struct sthr *me = cur;
	if (!me || !G.active)
		return;
	mem_check(a, sz, 1);
	me->accs++;
	if (me->accs >= me->next_sig_acc)
		rt_signal_check(me);
	rt_sched_point(Y_RMW);
	if (G.tso)
		foreign_stack_sync(me, a);
	rt_sb_drain_all(me);
	mem_check(a, sz, 1);
}

#define ATOMIC_HOOKS(bits, type)								\
type __tsan_atomic##bits##_load(const volatile type *a, int mo)				\
{ (void) mo; return (type) atomic_load_common((uintptr_t) a, bits / 8); }		\
void __tsan_atomic##bits##_store(volatile type *a, type v, int mo)			\
{ atomic_store_common((uintptr_t) a, (uint64_t) v, bits / 8, mo); }			\
type __tsan_atomic##bits##_exchange(volatile type *a, type v, int mo)			\
{ (void) mo; rmw_prologue((uintptr_t) a, bits / 8);					\
  return __atomic_exchange_n(a, v, __ATOMIC_SEQ_CST); }					\
type __tsan_atomic##bits##_fetch_add(volatile type *a, type v, int mo)			\
{ (void) mo; rmw_prologue((uintptr_t) a, bits / 8);					\
  return __atomic_fetch_add(a, v, __ATOMIC_SEQ_CST); }					\
type __tsan_atomic##bits##_fetch_sub(volatile type *a, type v, int mo)			\
{ (void) mo; rmw_prologue((uintptr_t) a, bits / 8);					\
  return __atomic_fetch_sub(a, v, __ATOMIC_SEQ_CST); }					\
type __tsan_atomic##bits##_fetch_and(volatile type *a, type v, int mo)			\
{ (void) mo; rmw_prologue((uintptr_t) a, bits / 8);					\
  return __atomic_fetch_and(a, v, __ATOMIC_SEQ_CST); }					\
type __tsan_atomic##bits##_fetch_or(volatile type *a, type v, int mo)			\
{ (void) mo; rmw_prologue((uintptr_t) a, bits / 8);					\
  return __atomic_fetch_or(a, v, __ATOMIC_SEQ_CST); }					\
type __tsan_atomic##bits##_fetch_xor(volatile type *a, type v, int mo)			\
{ (void) mo; rmw_prologue((uintptr_t) a, bits / 8);					\
  return __atomic_fetch_xor(a, v, __ATOMIC_SEQ_CST); }					\
type __tsan_atomic##bits##_fetch_nand(volatile type *a, type v, int mo)			\
{ (void) mo; rmw_prologue((uintptr_t) a, bits / 8);					\
  return __atomic_fetch_nand(a, v, __ATOMIC_SEQ_CST); }					\
int __tsan_atomic##bits##_compare_exchange_strong(volatile type *a, type *c, type v,	\
						   int mo, int fmo)			\
{ (void) mo; (void) fmo; rmw_prologue((uintptr_t) a, bits / 8);				\
  return __atomic_compare_exchange_n(a, c, v, 0, __ATOMIC_SEQ_CST, __ATOMIC_SEQ_CST); }	\
int __tsan_atomic##bits##_compare_exchange_weak(volatile type *a, type *c, type v,	\
						 int mo, int fmo)			\
{ (void) mo; (void) fmo; rmw_prologue((uintptr_t) a, bits / 8);				\
  return __atomic_compare_exchange_n(a, c, v, 0, __ATOMIC_SEQ_CST, __ATOMIC_SEQ_CST); }	\
type __tsan_atomic##bits##_compare_exchange_val(volatile type *a, type c, type v,	\
						 int mo, int fmo)			\
{ (void) mo; (void) fmo; rmw_prologue((uintptr_t) a, bits / 8);				\
  __atomic_compare_exchange_n(a, &c, v, 0, __ATOMIC_SEQ_CST, __ATOMIC_SEQ_CST);		\
  return c; }

ATOMIC_HOOKS(8, uint8_t)
ATOMIC_HOOKS(16, uint16_t)
ATOMIC_HOOKS(32, uint32_t)
ATOMIC_HOOKS(64, uint64_t)

void __tsan_atomic_thread_fence(int mo)
{
	struct sthr *me = cur;
	if (!me || !G.active)
		return;
	rt_sched_point(Y_FENCE);
	if (mo == __ATOMIC_SEQ_CST)
		rt_sb_drain_all(me);
}

void __tsan_atomic_signal_fence(int mo) { (void) mo; }

/* volatile accesses (CMM_ACCESS_ONCE / CMM_LOAD_SHARED): single-copy accesses
 * performed by the instrumented code itself; treated as scheduling points. */
static inline void volatile_access(uintptr_t a, unsigned sz, int wr)
{
	struct sthr *me = cur;
	if (!me || !G.active)
		return;
	mem_check(a, sz, wr);
	me->accs++;
	if (me->accs >= me->next_sig_acc)
		rt_signal_check(me);
	rt_sched_point(wr ? Y_ATOMIC_ST : Y_ATOMIC_LD);
	if (G.tso)
		foreign_stack_sync(me, a);
	if (me->sb_n) {
		if (!wr)
			sb_drain_overlap(me, a, sz);
		else if (!on_own_stack(me, a))
			rt_sb_drain_all(me);
	}
}

#define VOLATILE_HOOKS(n)									\
void __tsan_volatile_read##n(void *a) { volatile_access((uintptr_t) a, n, 0); }			\
void __tsan_volatile_write##n(void *a) { volatile_access((uintptr_t) a, n, 1); }		\
void __tsan_unaligned_volatile_read##n(void *a) { volatile_access((uintptr_t) a, n, 0); }	\
void __tsan_unaligned_volatile_write##n(void *a) { volatile_access((uintptr_t) a, n, 1); }

VOLATILE_HOOKS(1)
VOLATILE_HOOKS(2)
VOLATILE_HOOKS(4)
VOLATILE_HOOKS(8)
VOLATILE_HOOKS(16)

/* ------------------------------------------------------------------ /repo hooks */

void urcu_verif_rmw(void *addr, int len, int kind)
{
	(void) kind;
	rmw_prologue((uintptr_t) addr, (unsigned) len);
}

void urcu_verif_mb(void)
{
	struct sthr *me = cur;
	if (!me || !G.active)
		return;
	me->accs++;
	if (me->accs >= me->next_sig_acc)
		rt_signal_check(me);
	rt_sched_point(Y_FENCE);
	rt_sb_drain_all(me);
}

void urcu_verif_cpu_relax(void)
{
	struct sthr *me = cur;
	if (!me || !G.active)
		return;
	me->accs++;
	if (me->accs >= me->next_sig_acc)
		rt_signal_check(me);
	rt_sched_point(Y_RELAX);
}

/* ------------------------------------------------------------------ threads */

struct sthr *rt_new_thread(void)
{
	struct sthr *t;
	if (G.nthr >= MAXT)
		rt_finish(RS_INCONCLUSIVE, "too-many-threads", "more simulated threads than the engine supports");
	t = &G.thr[G.nthr];
	memset(t, 0, sizeof(*t));
	t->id = G.nthr++;
	t->state = T_RUNNABLE;
	t->next_sig_acc = ~0ULL;
	t->prio = (long) (rt_rand(US_SCHED) >> 40);
	t->cpu = t->id % (G.ncpus > 0 ? G.ncpus : 1);
	return t;
}

static void run_key_dtors(struct sthr *me)
{
	int round, k, again;
	for (round = 0; round < 4; round++) {
		again = 0;
		for (k = 0; k < MAXKEYS; k++) {
			void *v = me->tsd[k];
			if (G.keyused[k] && v && G.keydtor[k]) {
				me->tsd[k] = NULL;
				G.keydtor[k](v);
				again = 1;
			}
		}
		if (!again)
			break;
	}
}

void usim_thread_exit_hook(void (*fn)(int past_last_destructor_signal)) { G.thread_exit_hook = fn; }

static void thread_finish(struct sthr *me, void *ret)
{
	int i, late = 0;
	run_key_dtors(me);
	/*
	 * As in glibc: no destructor round follows, but the thread still runs for a short while with
	 * whatever signal mask the last destructor left. A signal that is still planned for this thread
	 * may arrive now (fault kind "signal_after_last_tsd_destructor").
	 */
	if (me->nsigplan && me->sigdepth == 0 && !G.quiet && usim_fault("signal_after_last_tsd_destructor", 1, 6)) {
		for (i = 0; i < me->nsigplan; i++)
			if (me->sigplan[i].at_acc > me->accs)
				me->sigplan[i].at_acc = me->accs;
		sig_recompute(me);
		i = me->nsigplan;
		rt_signal_check(me);
		late = me->nsigplan < i;
	}
	if (G.thread_exit_hook && me->id != 0)
		G.thread_exit_hook(late);
	rt_sb_drain_all(me);
	me->ret = ret;
	me->state = T_EXITED;
	for (i = 0; i < G.nthr; i++)
		if (G.thr[i].state == T_BLK_JOIN && G.thr[i].wait_obj == me)
			rt_make_runnable(&G.thr[i]);
	rt_trace("[%6lu T%d] thread exit\n", (unsigned long) G.seq, me->id);
	exit_handoff(me);
}

static void *trampoline(void *arg)
{
	struct sthr *me = arg;
	void *ret;
	sigset_t all;

	cur = me;
	sigfillset(&all);
	sigdelset(&all, SIGSEGV);
	sigdelset(&all, SIGBUS);
	sigdelset(&all, SIGILL);
	sigdelset(&all, SIGFPE);
	pthread_sigmask(SIG_SETMASK, &all, NULL);
	park_self(me);
	/*
	 * glibc places the thread's static TLS block and descriptor at the top of
	 * the stack we supplied: they are ordinary shared memory (reader counters
	 * live there), not stack. Only what lies below this frame is stack.
	 */
	me->stk_hi = (uintptr_t) __builtin_frame_address(0) + 256;
	/*
	 * Any thread -- also the library's own helpers (call_rcu, defer, resize worker and its partition
	 * threads), which no scenario plans stalls for -- may be suspended once, for a long time, at an
	 * arbitrary one of its first atomic accesses. Scenario-level plans override this one.
	 */
	if (G.thread_stalls && usim_below(US_SCHED, 3) == 0) {
		me->stall_mask = (1u << Y_ATOMIC_LD) | (1u << Y_ATOMIC_ST) | (1u << Y_RMW) | (1u << Y_FENCE);
		me->stall_ord = 1 + (int) usim_below(US_SCHED, 400);
		me->stall_len = 100 + usim_below(US_SCHED, 3000);
	}
	ret = me->fn(me->arg);
	thread_finish(me, ret);
	return NULL;
}

int usim_pthread_create(pthread_t *thread, const pthread_attr_t *attr,
			void *(*fn)(void *), void *arg)
{
	struct sthr *me = cur, *t;
	pthread_attr_t a;
	size_t ssz;
	void *stk;
	int ret;

	(void) attr;
	if (!me || !G.active) {
		fprintf(stderr, "usim: pthread_create outside a simulated run\n");
		_exit(3);
	}
	if (G.lib_threads_block_signals) {
		/*
		 * The library keeps application signal handlers off its own helper threads (which are not
		 * registered readers for most of their life) by creating them with every signal blocked.
		 */
		extern char __start_itext[], __stop_itext[];
		uintptr_t ra = (uintptr_t) __builtin_return_address(0);
		uint64_t need = (1ULL << (SIGUSR1 - 1)) | (1ULL << (SIGUSR2 - 1)) | (1ULL << (SIGALRM - 1)) |
				(1ULL << (SIGTERM - 1)) | (1ULL << (SIGINT - 1)) | (1ULL << (SIGHUP - 1));
		if (ra >= (uintptr_t) __start_itext && ra < (uintptr_t) __stop_itext && (me->sigmask & need) != need)
			usim_fail("library-thread-signals-unblocked",
				"the library creates a thread of its own without blocking signals first (mask %#llx): a process-directed signal can run the application's read-side handler on that thread, which is not a registered reader",
				(unsigned long long) me->sigmask);
	}
	rt_sb_drain_all(me);
	rt_sched_point(Y_SYS);
	/* threads the library started itself (they carry no scenario name): its resize worker creating partition helpers */
	if ((me->allow_create_fail || (G.lib_create_fail && !me->name[0])) && usim_fault("pthread_create_eagain", 1, 3))
		return EAGAIN;
	t = rt_new_thread();
	t->fn = fn;
	t->arg = arg;
	t->sigmask = me->sigmask;
	stk = mem_stack_for(t->id, &ssz);
	t->stk_lo = (uintptr_t) stk;
	t->stk_hi = (uintptr_t) stk + ssz;
	pthread_attr_init(&a);
	pthread_attr_setstack(&a, stk, ssz);
	pthread_attr_setdetachstate(&a, PTHREAD_CREATE_DETACHED);
	ret = pthread_create(&t->pt, &a, trampoline, t);
	pthread_attr_destroy(&a);
	if (ret)
		usim_bug("real pthread_create failed: %d", ret);
	*thread = (pthread_t) (uintptr_t) (0x7000 + t->id);
	rt_hash(0xc4ea7eULL ^ t->id);
	rt_trace("[%6lu T%d] create T%d\n", (unsigned long) G.seq, me->id, t->id);
	rt_sched_point(Y_CREATE);
	return 0;
}

static struct sthr *thr_of(pthread_t p)
{
	uintptr_t v = (uintptr_t) p;
	if (v >= 0x7000 && v < 0x7000 + (uintptr_t) G.nthr)
		return &G.thr[v - 0x7000];
	return NULL;
}

pthread_t usim_pthread_self(void)
{
	if (!cur || !G.active)
		return pthread_self();
	return (pthread_t) (uintptr_t) (0x7000 + cur->id);
}

int usim_pthread_join(pthread_t p, void **ret)
{
	struct sthr *me = cur, *t = thr_of(p);

	if (!t)
		usim_fail("join-nonexistent", "pthread_join on a thread that does not exist in this process (handle %#lx)", (unsigned long) p);
	if (t->joined)
		usim_fail("join-nonexistent", "pthread_join twice on T%d", t->id);
	rt_sched_point(Y_SYS);
	while (t->state != T_EXITED) {
		me->state = T_BLK_JOIN;
		me->wait_obj = t;
		rt_block(me);
	}
	t->joined = 1;
	if (ret)
		*ret = t->ret;
	return 0;
}

void usim_pthread_exit(void *ret)
{
	struct sthr *me = cur;
	if (me->id == 0)
		usim_bug("pthread_exit from the main simulated thread");
	thread_finish(me, ret);
	/* real thread ends */
	pthread_exit(NULL);
}

int usim_pthread_detach(pthread_t p) { (void) p; return 0; }

/* pthread keys */
int usim_pthread_key_create(pthread_key_t *key, void (*dtor)(void *))
{
	int k;
	for (k = 0; k < MAXKEYS; k++)
		if (!G.keyused[k]) {
			G.keyused[k] = 1;
			G.keydtor[k] = dtor;
			*key = (pthread_key_t) k;
			return 0;
		}
	return EAGAIN;
}

int usim_pthread_key_delete(pthread_key_t key)
{
	int i;
	if (key >= MAXKEYS)
		return EINVAL;
	G.keyused[key] = 0;
	G.keydtor[key] = NULL;
	for (i = 0; i < MAXT; i++)
		G.thr[i].tsd[key] = NULL;
	return 0;
}

static void *pre_sim_tsd[MAXKEYS];

int usim_pthread_setspecific(pthread_key_t key, const void *v)
{
	if (key >= MAXKEYS)
		return EINVAL;
	if (cur)
		cur->tsd[key] = (void *) v;
	else
		pre_sim_tsd[key] = (void *) v;
	return 0;
}

void *usim_pthread_getspecific(pthread_key_t key)
{
	if (key >= MAXKEYS)
		return NULL;
	return cur ? cur->tsd[key] : pre_sim_tsd[key];
}

/* ------------------------------------------------------------------ run setup */

void rt_begin(uint64_t rs, int tier)
{
	struct sthr *me;
	int i;
	size_t ssz;

	G.rs = rs;
	G.tier = tier;
	for (i = 0; i < US_NSTREAMS + 2; i++) {
		uint64_t s = rs ^ (0xa0761d6478bd642fULL * (i + 1));
		splitmix(&s);
		G.prng[i] = s;
	}
	G.hash = 0xcbf29ce484222325ULL;
	G.seq = 0;
	G.steps = 0;
	G.solo_tid = -1;
	G.stall_victim = -1;
	G.nthr = 0;
	if (!G.ncpus)
		G.ncpus = 2;

	/* engine-level swarm choices (SCHED stream); each can be pinned */
	G.tso = (int) usim_param("tso", usim_below(US_SCHED, 3) != 0);
	G.strategy = (int) usim_param("strategy", usim_below(US_SCHED, 3));
	{
		static const uint32_t sticks[] = { 128, 205, 243 };
		static const uint32_t plains[] = { 0, 0, 16, 64, 256 };
		G.stick = (uint32_t) usim_param("stick", sticks[usim_below(US_SCHED, 3)]);
		G.sync_bias = (int) usim_param("sync_bias", usim_below(US_SCHED, 3) == 0);
		G.thread_stalls = (int) usim_param("thread_stalls", usim_below(US_SCHED, 2));
		G.p_plain = (uint32_t) usim_param("p_plain", plains[usim_below(US_SCHED, 5)]);
		G.p_drain = (uint32_t) usim_param("p_drain", 1u << usim_below(US_SCHED, 6));
	}
	G.step_cap = (uint64_t) usim_param("step_cap", tier ? 400000 : 200000);
	G.time_cap = (uint64_t) usim_param("time_cap_ms", 600000) * 1000000ULL;
	G.quiet_steps = 400000;
	G.quiet_ns = 60ULL * 1000000000ULL;
	G.nosched_after = (uint64_t) usim_param("nosched_after", 0);
	/* PCT change points */
	G.pct_ncp = 1 + usim_below(US_SCHED, 4);
	for (i = 0; i < G.pct_ncp; i++)
		G.pct_cp[i] = usim_below(US_SCHED, 3000);
	/* sort descending so that the last is the smallest */
	for (i = 0; i < G.pct_ncp; i++) {
		int j;
		for (j = i + 1; j < G.pct_ncp; j++)
			if (G.pct_cp[j] > G.pct_cp[i]) {
				uint64_t t = G.pct_cp[i]; G.pct_cp[i] = G.pct_cp[j]; G.pct_cp[j] = t;
			}
	}
	G.pct_low = -1;
	G.stall_at = usim_below(US_SCHED, 1500);
	G.stall_len = 200 + usim_below(US_SCHED, 6000);
	G.slice = 1 + usim_below(US_SCHED, 60);
	G.slice_left = G.slice;
	if (G.nexp || usim_param("explicit", 0)) {
		G.strategy = 3;
	}

	me = rt_new_thread();
	me->pt = pthread_self();
	snprintf(me->name, sizeof(me->name), "main");
	{
		/* main thread stack: generous window around the current frame */
		uintptr_t sp = (uintptr_t) __builtin_frame_address(0);
		me->stk_lo = sp - (8UL << 20);
		me->stk_hi = sp + (1UL << 20);
	}
	(void) ssz;
	cur = me;
	G.active = 1;
}

void usim_child_exit(void)
{
	if (!G.in_fork_child)
		usim_bug("usim_child_exit outside a forked child");
	rt_finish(RS_OK, NULL, NULL);
}
