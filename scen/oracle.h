/* oracle.h — oracles shared by the scenarios. Implemented in oracle.c, which is
 * compiled WITHOUT instrumentation so that bookkeeping neither adds yield
 * points inside the windows under test nor drains a store buffer. */
#ifndef SCEN_ORACLE_H
#define SCEN_ORACLE_H
#include <stdint.h>

/* ---- interval oracle: S.begin < G.call  =>  S.end < G.done ---- */
void orc_reset(void);
/* a read-side critical section (outermost) of logical reader `who` */
int orc_cs_begin(int who);		/* call AFTER the lock/online/QS call returned */
void orc_cs_end(int cs);		/* call BEFORE the unlock/offline/QS call is entered */
/* a grace-period consumer */
int orc_gp_call(int who);		/* call BEFORE the API is entered */
/* call AFTER the API returned (callback: at callback entry). `what` names the consumer */
void orc_gp_done(int gp, const char *what);
/* number of sections that overlapped some grace period wait (non-triviality) */
void orc_forget_open_sections(void);
int orc_overlaps(void);
int orc_ncs(void);
int orc_ngp(void);

/* ---- generic small helpers kept out of instrumented code ---- */
struct orc_counter { long v; };
#endif

/* ---- callback oracle (call_rcu / rcu_barrier) ---- */
#ifndef SCEN_ORACLE_CB_H
#define SCEN_ORACLE_CB_H
int orc_cb_new(int who);			/* BEFORE call_rcu() is entered */
void orc_cb_called(int cb);			/* AFTER call_rcu() returned */
void orc_cb_start(int cb, const char *what);	/* at callback entry: exactly-once + interval check */
void orc_cb_end(int cb);			/* last statement of the callback */
int orc_barrier_enter(int who);			/* BEFORE rcu_barrier() is entered */
void orc_barrier_return(int b);			/* AFTER it returned */
void orc_cb_forked_child(void);		/* in a forked child: calls in flight at fork() may be lost there */
void orc_cb_final_check(const char *what);	/* every callback ran exactly once */
int orc_ncb(void);
int orc_cb_count(int cb);
#endif

/* ---- defer_rcu oracle ---- */
#ifndef SCEN_ORACLE_DEFER_H
#define SCEN_ORACLE_DEFER_H
void orc_defer_queue(int thread, int fn, void *arg);	/* BEFORE defer_rcu() */
void orc_defer_queued(int thread);			/* AFTER defer_rcu() returned */
void orc_defer_invoked(int fn, void *arg);		/* inside the deferred function */
void orc_defer_finished(int fn, void *arg);		/* at the end of the deferred function */
int orc_defer_pending(int thread);			/* queued but not yet invoked (own) */
int orc_defer_mark(int thread);				/* BEFORE a barrier: returns a mark */
void orc_defer_check_all(int mark, const char *what);	/* AFTER rcu_defer_barrier() */
void orc_defer_check_thread(int thread, int mark, const char *what);
int orc_defer_total(void);
#endif

/* ---- hash-table presence / traversal oracle ---- */
#ifndef SCEN_ORACLE_HT_H
#define SCEN_ORACLE_HT_H
void hor_node(int id, int key);
void hor_added(int id, uint64_t inv);		/* at return of the op that inserted it */
void hor_removed(int id, uint64_t inv);		/* at return of the op that obtained it */
int hor_trav_begin(int key);			/* key < 0: whole table */
void hor_trav_visit(int t, int id);
void hor_trav_end(int t);
void hor_trav_set_interval(int t, uint64_t inv, uint64_t ret);
void hor_check(unsigned unique_key_mask);	/* post-run */
int hor_present_count(void);			/* nodes added and not removed (call at quiescence) */
int hor_is_present(int id);
#endif

/* ---- RCU list oracle (one mutually excluded updater at a time) ---- */
#ifndef SCEN_ORACLE_LIST_H
#define SCEN_ORACLE_LIST_H
void lor_add(int id, int at_tail, uint64_t inv);	/* at return of the add */
void lor_replace(int old_id, int new_id, uint64_t inv);
void lor_del(int id, uint64_t inv);
void lor_update_done(int added_id, int removed_id);	/* after the updater lock was released */
int lor_trav_begin(void);
void lor_trav_visit(int t, int id);
void lor_trav_end(int t);
void lor_check(void);
int lor_live(void);
#endif
