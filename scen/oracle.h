/* oracle.h — oracles shared by the scenarios. Implemented in oracle.c, which is
 * compiled WITHOUT instrumentation so that bookkeeping neither adds yield
 * points inside the windows under test nor drains a store buffer. */
#ifndef SCEN_ORACLE_H
#define SCEN_ORACLE_H
#include <stdint.h>

/* ---- interval oracle: S.begin < G.call  =>  S.end < G.done ---- */
void orc_reset(void);
/* a read-side critical section (outermost) of logical reader `who` */
int orc_cs_begin(int who);		/* call AFTER the lock/online/QS call returned */
void orc_cs_end(int cs);		/* call BEFORE the unlock/offline/QS call is entered */
/* a grace-period consumer */
int orc_gp_call(int who);		/* call BEFORE the API is entered */
/* call AFTER the API returned (callback: at callback entry). `what` names the consumer */
void orc_gp_done(int gp, const char *what);
/* number of sections that overlapped some grace period wait (non-triviality) */
int orc_overlaps(void);
int orc_ncs(void);
int orc_ngp(void);

/* ---- generic small helpers kept out of instrumented code ---- */
struct orc_counter { long v; };
#endif
