/*
 * forksc.c — scenario `fork` (C16): a real fork() bracketed by the documented
 * handlers, at any point relative to queued callbacks, helper threads, grace
 * periods and hash-table resize work; parent and child both keep working.
 */
#include "common.h"
#include <unistd.h>
#include <urcu/uatomic.h>
#include <urcu/pointer.h>
#include <urcu/call-rcu.h>
#include <urcu/rculfhash.h>

enum { OP_CALL, OP_READ, OP_SYNC, OP_PT_ON, OP_PC_ON, OP_TABLE, OP_FORK, OP_BARRIER, OP_NK };
static const char *const opname[] = { "call_rcu", "read", "sync", "perthread_helper", "percpu_helpers", "autoresize_table", "FORK", "barrier" };

#define MAGIC 0xf02cf02cf02cL
struct cbnode { struct rcu_head head; long magic; int id; int free_self; };
struct tnode { struct cds_lfht_node n; int key; };
struct obj { long version, a, b; };

static const struct flavor_ops *F;
static struct script scripts[MAX_SCRIPT_THREADS];
static int nthreads, forked, in_child;
static struct obj *gptr;
static struct call_rcu_data *pt_crdp;
static int percpu_on;
static struct cds_lfht *table;
static int bp_stop;

static void cb_func(struct rcu_head *h)
{
	struct cbnode *n = caa_container_of(h, struct cbnode, head);
	int id;
	if (n->magic != MAGIC)
		usim_fail("callback-wrong-head", "callback invoked with a pointer that is not the registered rcu_head");
	id = n->id;
	orc_cb_start(id, in_child ? "callback (in the forked child)" : "callback");
	orc_cb_end(id);
	if (n->free_self)
		free(n);
}

/*
 * bp: other registered threads may also be inside call_rcu() at the instant of fork() (it runs
 * under the read-side lock). How many are is harness bookkeeping, invisible to the scheduler.
 */
static int reader_calls, calls_in_flight, forked_with_call_in_flight, readers_done;
static const char *child_tag = "child";

HARNESS_BOOKKEEPING static void in_flight(int d) { calls_in_flight += d; }
HARNESS_BOOKKEEPING static int in_flight_now(void) { return calls_in_flight; }

static void do_call(int who, int free_self)
{
	struct cbnode *n = malloc(sizeof(*n));
	int id;
	usim_mem_tag(n, "cbnode");
	n->magic = MAGIC;
	n->free_self = free_self;
	id = n->id = orc_cb_new(who);
	if (who >= 1 && who <= 3)
		in_flight(1);
	F->call_rcu(&n->head, cb_func);
	if (who >= 1 && who <= 3)
		in_flight(-1);
	orc_cb_called(id);
}

static int match_fn(struct cds_lfht_node *node, const void *key)
{
	return caa_container_of(node, struct tnode, n)->key == *(const int *) key;
}

/* create a resizable table, fill it so lazy resize work gets queued, resize, empty, destroy */
static void exercise_table(struct cds_lfht **keep)
{
	struct cds_lfht *ht;
	struct tnode *nodes[10];
	int i, ret;

	ht = cds_lfht_new_flavor(1, 1, 64, CDS_LFHT_AUTO_RESIZE | CDS_LFHT_ACCOUNTING, F->flavor, NULL);
	if (!ht)
		usim_fail("lfht-api", "cds_lfht_new failed");
	F->read_lock();
	for (i = 0; i < 10; i++) {
		nodes[i] = malloc(sizeof(*nodes[i]));
		cds_lfht_node_init(&nodes[i]->n);
		nodes[i]->key = i;
		cds_lfht_add(ht, (unsigned long) i * 0x9e3779b97f4a7c15UL, &nodes[i]->n);
	}
	F->read_unlock();
	if (keep) {
		*keep = ht;	/* left alive with its queued resize work across the fork */
		return;
	}
	cds_lfht_resize(ht, 16);
	F->read_lock();
	for (i = 0; i < 10; i++) {
		struct cds_lfht_iter it;
		cds_lfht_lookup(ht, (unsigned long) i * 0x9e3779b97f4a7c15UL, match_fn, &i, &it);
		if (!cds_lfht_iter_get_node(&it))
			usim_fail("lfht-resident-missed", "node %d not found in a freshly filled table", i);
		if (cds_lfht_del(ht, cds_lfht_iter_get_node(&it)))
			usim_fail("lfht-api", "del failed");
	}
	F->read_unlock();
	F->synchronize_rcu();
	for (i = 0; i < 10; i++)
		free(nodes[i]);
	ret = cds_lfht_destroy(ht, NULL);
	if (ret)
		usim_fail("lfht-destroy", "cds_lfht_destroy of an emptied table failed (%d)", ret);
	/*
	 * The teardown of an auto-resize table is handed to the resize worker: that work has
	 * to run (in a forked child too), or the table leaks and the process cannot exit.
	 * The engine's liveness budget decides; qsbr: the worker's grace periods need us offline.
	 */
	usim_set_op("%s: waits for the resize worker to finish the deferred destroy of its table", in_child ? child_tag : "parent");
	if (F->is_qsbr)
		F->thread_offline();
	while (usim_mem_is_live(ht))
		usleep(1000);
	if (F->is_qsbr)
		F->thread_online();
	usim_probe("fork.deferred_table_destroy_completed");
}

static void read_section(int me)
{
	int cs;
	struct obj *p;
	F->read_lock();
	cs = orc_cs_begin(me);
	p = rcu_dereference(gptr);
	if (p->a != p->version * 3 + 1)
		usim_fail("reclaimed-object-read", "reader saw a reclaimed object");
	usim_pause();
	orc_cs_end(cs);
	F->read_unlock();
}

/*
 * bp: a signal handler that uses the read side may interrupt the forking thread anywhere, also
 * while it has not used the read side yet (the handler then performs the automatic registration)
 * and while the signal was held pending by the fork handlers' mask: in the parent and in the child.
 */
static int sig_after[2], fork_handler_runs;

static void fork_sig_handler(int signo)
{
	(void) signo;
	read_section(in_child ? 61 : 60);
	fork_handler_runs++;
}

static void sync_checked(int me, const char *what)
{
	int g;
	if (F->is_qsbr) {
		/* the forking thread is online: its own implicit section is excluded */
	}
	g = orc_gp_call(me);
	F->synchronize_rcu();
	orc_gp_done(g, what);
}

static void barrier_and_check(const char *what)
{
	int i;
	for (i = 0; i < 2; i++) {
		int b = orc_barrier_enter(in_child ? 98 : 99);
		F->barrier();
		orc_barrier_return(b);
	}
	orc_cb_final_check(what);
}

static void do_fork(void);
static int nested_fork, generation;
static struct cds_lfht *table2;

static void child_main(void)
{
	in_child = 1;
	usim_set_op("%s: first use after fork", child_tag);
	/* immediately usable: read side, grace periods, call_rcu, barrier, resizable tables */
	read_section(50);
	sync_checked(50, "synchronize_rcu() in the forked child");
	do_call(50, 1);
	do_call(50, 0);
	if (nested_fork && generation == 1) {
		/* the child forks in turn, while the worker it re-created may be busy with a lazy resize */
		usim_set_op("%s: fills a table, then forks again", child_tag);
		exercise_table(&table2);
		do_fork();
		usim_probe("fork.second_generation_fork_done");
	}
	usim_set_op("%s: rcu_barrier", child_tag);
	barrier_and_check("in the forked child after rcu_barrier()");
	usim_set_op("%s: hash table", child_tag);
	exercise_table(NULL);
	read_section(50);
	sync_checked(50, "synchronize_rcu() in the forked child");
	usim_child_exit();
}

static void do_fork(void)
{
	pid_t pid;

	if (in_child)
		usim_set_op("%s: fork", child_tag);
	else
		usim_set_op("fork");
	/*
	 * Handler order: helpers are paused first (they may need the bp locks to
	 * get there), then the bp locks are taken; released in reverse order.
	 * qsbr: a thread that waits for helper threads does so offline.
	 */
	if (F->is_qsbr)
		F->thread_offline();
	F->call_rcu_before_fork();
	if (F->is_bp)
		F->bp_before_fork();
	pid = fork();
	if (pid == 0) {
		in_child = 1;
		generation++;
		orc_forget_open_sections();	/* the other threads do not exist here */
		orc_cb_forked_child();
		if (in_flight_now()) {
			forked_with_call_in_flight = 1;
			child_tag = "child/call_rcu-in-flight-at-fork";
			usim_probe("fork.child_forked_while_another_thread_inside_call_rcu");
		}
		usim_set_op("%s: after-fork handlers", child_tag);
		if (F->is_bp)
			F->bp_after_fork_child();
		F->call_rcu_after_fork_child();
		if (F->is_qsbr)
			F->thread_online();
		child_main();
	}
	if (F->is_bp)
		F->bp_after_fork_parent();
	F->call_rcu_after_fork_parent();
	if (F->is_qsbr)
		F->thread_online();
	forked = 1;
	usim_probe("fork.parent_continues");
}

/* bp only: other reader threads registered and inside sections at fork time */
static int nreaders_g;
static uint32_t call_pattern;
static int rnd_thread_bit(int me, int n) { return (call_pattern >> ((me * 7 + n) % 30)) & 1; }

static void *bp_reader(void *arg)
{
	int me = (int) (long) arg, n = 0;
	usim_thread_name("bp-reader%d", me);
	while (!uatomic_read(&bp_stop) && n++ < 40) {
		read_section(me);
		if (reader_calls && n <= 6 && rnd_thread_bit(me, n))
			do_call(me, 1);
		usim_pause();
	}
	uatomic_inc(&readers_done);
	return NULL;
}

/*
 * Another application thread (not a reader, no defer user) that owns a call_rcu helper of its
 * own and destroys it at some point: "several helpers", one of them stopping, at fork time.
 */
static int owner_pauses, with_creator;

static void *helper_owner(void *arg)
{
	struct call_rcu_data *c;
	int i;
	(void) arg;
	usim_thread_name("helper-owner");
	usim_set_op("owner: create_call_rcu_data");
	c = F->create_call_rcu_data(0, -1);
	for (i = 0; i < owner_pauses; i++)
		usleep(1000);
	usim_set_op("owner: call_rcu_data_free");
	F->call_rcu_data_free(c);
	usim_probe("fork.other_thread_destroyed_its_helper");
	return NULL;
}

/*
 * Another application thread (never a reader) that creates the process's first auto-resize
 * table, i.e. the resize work queue, its worker and the atfork registration, around fork time.
 */
static struct cds_lfht *creator_table;
static int creator_pauses, creator_done;

static void *table_creator(void *arg)
{
	int i;
	(void) arg;
	usim_thread_name("table-creator");
	for (i = 0; i < creator_pauses; i++)
		usleep(1000);
	usim_set_op("creator: cds_lfht_new (first auto-resize table of the process)");
	creator_table = cds_lfht_new_flavor(1, 1, 64, CDS_LFHT_AUTO_RESIZE | CDS_LFHT_ACCOUNTING, F->flavor, NULL);
	if (!creator_table)
		usim_fail("lfht-api", "cds_lfht_new failed");
	if (!forked)
		usim_probe("fork.other_thread_created_first_table_before_fork_returned");
	uatomic_set(&creator_done, 1);
	return NULL;
}

static void *forker(void *arg)
{
	struct script *s = arg;
	int i;

	usim_thread_name("forker");
	if (sig_after[0])
		usim_signal_plan(usim_tid(), 10, (uint64_t) sig_after[0]);
	if (sig_after[1])
		usim_signal_plan(usim_tid(), 10, (uint64_t) sig_after[1]);
	if (!F->is_bp)
		F->register_thread();
	for (i = 0; i < s->nops; i++) {
		struct op *op = &s->ops[i];
		if (op->skip)
			continue;
		usim_set_op("0.%d %s", i, opname[op->kind]);
		switch (op->kind) {
		case OP_CALL: do_call(0, op->b & 1); break;
		case OP_READ: if (!F->is_qsbr) read_section(0); break;
		case OP_SYNC: sync_checked(0, "synchronize_rcu()"); break;
		case OP_PT_ON:
			if (!pt_crdp) {
				pt_crdp = F->create_call_rcu_data(op->a ? URCU_CALL_RCU_RT : 0, -1);
				F->set_thread_call_rcu_data(pt_crdp);
			}
			break;
		case OP_PC_ON:
			if (!percpu_on) {
				if (F->create_all_cpu_call_rcu_data(op->a ? URCU_CALL_RCU_RT : 0))
					usim_fail("api-error", "create_all_cpu_call_rcu_data failed");
				percpu_on = 1;
			}
			break;
		case OP_TABLE:
			if (!table)
				exercise_table(&table);
			break;
		case OP_FORK:
			if (!forked)
				do_fork();
			break;
		case OP_BARRIER: {
			int b = orc_barrier_enter(0);
			F->barrier();
			orc_barrier_return(b);
			break;
		}
		}
	}
	usim_quiet_vote();
	uatomic_set(&bp_stop, 1);
	while (reader_calls && uatomic_read(&readers_done) < nreaders_g)
		usleep(1000);	/* their last call_rcu() has returned */
	/* parent: everything queued before and after the fork runs exactly once here too */
	barrier_and_check("in the parent after rcu_barrier()");
	if (pt_crdp) {
		struct call_rcu_data *c = pt_crdp;
		pt_crdp = NULL;
		F->set_thread_call_rcu_data(NULL);
		if (F->is_qsbr)
			F->thread_offline();
		F->call_rcu_data_free(c);
		if (F->is_qsbr)
			F->thread_online();
	}
	if (percpu_on) {
		if (F->is_qsbr)
			F->thread_offline();
		F->free_all_cpu_call_rcu_data();
		if (F->is_qsbr)
			F->thread_online();
	}
	if (with_creator) {
		while (!uatomic_read(&creator_done))
			usleep(1000);
		if (cds_lfht_destroy(creator_table, NULL))
			usim_fail("lfht-destroy", "cds_lfht_destroy of an empty table failed");
	}
	if (!F->is_bp)
		F->unregister_thread();
	return NULL;
}

void scen_fork(void)
{
	struct script *s = &scripts[0];
	pthread_t th, rd[3], owner, creator;
	int i, nreaders = 0, forkpos, with_owner;
	static const int cpus[] = { 1, 2, 3, 4 };

	orc_reset();
	F = choose_flavor(0xf);
	choose_futex_faults(1);
	choose_rcu_knobs(1);
	usim_fault_enable("getcpu_migrate", rnd(2));
	usim_set_ncpus((int) usim_param("ncpus", cpus[rnd(4)]));
	usim_set_knob(URCU_VERIF_KNOB_COUNT_COMMIT_ORDER, 1);
	s->nops = 3 + rnd(usim_tier() ? 10 : 7);
	forkpos = rnd(s->nops);
	usim_describe("{\"flavor\":\"%s\",\"ops\":[", F->name);
	for (i = 0; i < s->nops; i++) {
		struct op *op = &s->ops[i];
		uint32_t r = rnd(100);
		op->a = rnd(3) == 0;
		op->b = rnd(4);
		if (i == forkpos) op->kind = OP_FORK;
		else if (r < 40) op->kind = OP_CALL;
		else if (r < 52) op->kind = OP_READ;
		else if (r < 62) op->kind = OP_SYNC;
		else if (r < 72) op->kind = OP_PT_ON;
		else if (r < 80) op->kind = OP_PC_ON;
		else if (r < 90) op->kind = OP_TABLE;
		else op->kind = OP_BARRIER;
		usim_describe("%s\"%s\"", i ? "," : "", opname[op->kind]);
	}
	nthreads = 1;
	if (F->is_bp)
		nreaders = (int) usim_param("bp_readers", rnd(4));
	if (F->is_bp && (int) usim_param("signals", rnd(2))) {
		sig_after[0] = 1 + (int) rnd(400);
		sig_after[1] = 1 + (int) rnd(4000);
		usim_signal_handler(10, fork_sig_handler);
	}
	nested_fork = (int) usim_param("nested_fork", rnd(3) == 0);
	with_owner = (int) usim_param("helper_owner", rnd(3) == 0);
	owner_pauses = (int) rnd(12);
	with_creator = (int) usim_param("table_creator", rnd(3) == 0);
	creator_pauses = (int) rnd(16);
	reader_calls = (int) usim_param("reader_calls", nreaders && rnd(2));
	call_pattern = rnd(1u << 30);
	nreaders_g = nreaders;
	usim_describe("],\"bp_readers\":%d,\"reader_calls\":%d,\"helper_owner\":%d,\"table_creator\":%d}", nreaders, reader_calls, with_owner, with_creator);
	script_apply_skips(scripts, 1);
	gptr = malloc(sizeof(*gptr));
	gptr->version = 0;
	gptr->a = 1;
	gptr->b = 2;
	usim_quiet_expect(1);
	/* the first call_rcu() of a process creates the default helper under call_rcu_mutex: not from a reader racing fork() */
	if (reader_calls)
		(void) F->get_default_call_rcu_data();
	for (i = 0; i < nreaders; i++)
		pthread_create(&rd[i], NULL, bp_reader, (void *) (long) (i + 1));
	if (with_owner)
		pthread_create(&owner, NULL, helper_owner, NULL);
	if (with_creator)
		pthread_create(&creator, NULL, table_creator, NULL);
	pthread_create(&th, NULL, forker, s);
	pthread_join(th, NULL);
	if (with_creator)
		pthread_join(creator, NULL);
	if (with_owner)
		pthread_join(owner, NULL);
	for (i = 0; i < nreaders; i++)
		pthread_join(rd[i], NULL);
	if (forked)
		usim_mark_nontrivial();
	usim_probe_n("fork.read_side_signal_handler_runs", fork_handler_runs);
}
