#include "../usim/usim.h"
#include "flavor.h"

const struct flavor_ops *const flavors[FLV_N] = { &flavor_memb, &flavor_mb, &flavor_qsbr, &flavor_bp };

void scen_gp(void);
void scen_gp_live(void);
void scen_registry(void);
void scen_callrcu(void);
void scen_barrier(void);
void scen_poll(void);
void scen_defer(void);
void scen_wfcq(void);
void scen_stacks(void);
void scen_lfq(void);
void scen_lfht_lin(void);
void scen_lfht_unique(void);
void scen_lfht_owner(void);
void scen_lfht_resize(void);
void scen_lfht_seq(void);
void scen_rculist(void);
void scen_signals(void);
void scen_fork(void);
void scen_progress(void);
void scen_uatomic(void);

const struct usim_scenario usim_scenarios[] = {
	{ "gp", "C01", scen_gp },
	{ "gp_live", "C02", scen_gp_live },
	{ "registry", "C15", scen_registry },
	{ "callrcu", "C03", scen_callrcu },
	{ "barrier", "C04", scen_barrier },
	{ "poll", "C14", scen_poll },
	{ "defer", "C13", scen_defer },
	{ "wfcq", "C10", scen_wfcq },
	{ "stacks", "C11", scen_stacks },
	{ "lfq", "C12", scen_lfq },
	{ "lfht_lin", "C05", scen_lfht_lin },
	{ "lfht_unique", "C06", scen_lfht_unique },
	{ "lfht_owner", "C07", scen_lfht_owner },
	{ "lfht_resize", "C09", scen_lfht_resize },
	{ "lfht_seq", "C08", scen_lfht_seq },
	{ "rculist", "C18", scen_rculist },
	{ "signals", "C19", scen_signals },
	{ "fork", "C16", scen_fork },
	{ "progress", "C17", scen_progress },
	{ "uatomic", "C20", scen_uatomic },
};
const int usim_nscenarios = sizeof(usim_scenarios) / sizeof(usim_scenarios[0]);
