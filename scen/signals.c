/*
 * signals.c — scenario `signals` (C19): read-side critical sections inside
 * signal handlers (memb, mb, bp), delivered at any memory access of the
 * interrupted thread, in library or application code, nested up to depth 2.
 */
#include "common.h"
#include <signal.h>
#include <urcu/uatomic.h>
#include <urcu/pointer.h>
#include <urcu/call-rcu.h>

enum { OP_READ, OP_UPDATE, OP_SYNC, OP_CALL, OP_NK };
static const char *const opname[] = { "read", "update", "sync", "call_rcu" };

struct obj { long version, a, pad[3], b; struct rcu_head rh; };

static const struct flavor_ops *F;
static struct obj *gptr;
static pthread_mutex_t upd_lock = PTHREAD_MUTEX_INITIALIZER;
static long version_ctr;
static struct script scripts[MAX_SCRIPT_THREADS];
static int nthreads;
static int nsig[MAX_SCRIPT_THREADS];
static int sigat[MAX_SCRIPT_THREADS][4], signo_of[MAX_SCRIPT_THREADS][4];

static void handler(int signo)
{
	int before, after, cs, depth = usim_signal_depth();
	struct obj *p;
	long v, a, b;

	before = F->read_ongoing();
	F->read_lock();
	cs = orc_cs_begin(1000 + usim_tid() * 8 + depth);
	p = rcu_dereference(gptr);
	v = p->version;
	a = p->a;
	if (signo == 10)
		usim_pause();	/* let the world move while the handler holds its section */
	b = p->b;
	if (a != v * 3 + 1 || b != v * 7 + 2)
		usim_fail("reclaimed-object-read", "signal handler in T%d saw object version %ld with a=%ld b=%ld", usim_tid(), v, a, b);
	orc_cs_end(cs);
	F->read_unlock();
	after = F->read_ongoing();
	if (!!before != !!after)
		usim_fail("signal-state-not-restored",
			"rcu_read_ongoing() was %d before the handler's read-side section and %d after it (depth %d)", before, after, depth);
	usim_probe(depth > 1 ? "signals.nested_handler" : "signals.handler");
}

static void free_cb(struct rcu_head *rh) { free(caa_container_of(rh, struct obj, rh)); }

static void publish(int me, int via_call_rcu)
{
	struct obj *n = malloc(sizeof(*n)), *old;
	int g;

	usim_mem_tag(n, "rcu-object");
	pthread_mutex_lock(&upd_lock);
	n->version = ++version_ctr;
	n->a = n->version * 3 + 1;
	n->b = n->version * 7 + 2;
	old = gptr;
	rcu_assign_pointer(gptr, n);
	pthread_mutex_unlock(&upd_lock);
	if (via_call_rcu) {
		F->call_rcu(&old->rh, free_cb);
	} else {
		g = orc_gp_call(me);
		F->synchronize_rcu();
		orc_gp_done(g, "synchronize_rcu()");
		free(old);
	}
}

static void do_read(int me, struct op *op)
{
	int d, cs = -1, i, before = F->read_ongoing();
	struct obj *p;
	long v, a, b;

	for (d = 0; d < op->a; d++) {
		F->read_lock();
		if (d == 0)
			cs = orc_cs_begin(me);
	}
	p = rcu_dereference(gptr);
	v = p->version;
	a = p->a;
	for (i = 0; i < op->b; i++)
		usim_pause();
	b = p->b;
	if (a != v * 3 + 1 || b != v * 7 + 2)
		usim_fail("reclaimed-object-read", "reader %d saw object version %ld with a=%ld b=%ld", me, v, a, b);
	if (!F->read_ongoing())
		usim_fail("signal-state-not-restored", "reader %d: rcu_read_ongoing() is 0 inside its own critical section (a handler unbalanced the nesting)", me);
	for (d = 0; d < op->a; d++) {
		if (d == op->a - 1)
			orc_cs_end(cs);
		F->read_unlock();
	}
	if (!!F->read_ongoing() != !!before)
		usim_fail("signal-state-not-restored", "reader %d: nesting not back to its previous value after its section", me);
}

static void *s_thread(void *arg)
{
	struct script *s = arg;
	int me = (int) (s - scripts), i;
	sigset_t all;

	usim_thread_name("script%d", me);
	if (!F->is_bp)
		F->register_thread();
	/* memb/mb: handlers may run only while the thread is registered */
	for (i = 0; i < nsig[me]; i++)
		usim_signal_plan(usim_tid(), signo_of[me][i], (uint64_t) sigat[me][i]);
	for (i = 0; i < s->nops; i++) {
		struct op *op = &s->ops[i];
		if (op->skip)
			continue;
		usim_set_op("%d.%d %s", me, i, opname[op->kind]);
		switch (op->kind) {
		case OP_READ: do_read(me, op); break;
		case OP_UPDATE: publish(me, 0); break;
		case OP_CALL: publish(me, 1); break;
		case OP_SYNC: {
			int g = orc_gp_call(me);
			F->synchronize_rcu();
			orc_gp_done(g, "synchronize_rcu()");
			break;
		}
		}
	}
	usim_quiet_vote();
	if (!F->is_bp) {
		/* no handler after unregistration: block everything first (pending ones stay pending) */
		sigfillset(&all);
		pthread_sigmask(SIG_BLOCK, &all, NULL);
		F->unregister_thread();
	}
	return NULL;
}

void scen_signals(void)
{
	int t, i, voters = 0;

	orc_reset();
	F = choose_flavor((1u << FLV_MEMB) | (1u << FLV_MB) | (1u << FLV_BP));
	choose_futex_faults(1);
	choose_rcu_knobs(1);
	usim_signal_handler(10, handler);
	usim_signal_handler(12, handler);
	/* handlers only ever run on registered threads: the library's own threads are created with signals blocked */
	usim_require_library_threads_block_signals(1);
	nthreads = (int) usim_param("nthreads", 1 + rnd(4));
	usim_describe("{\"flavor\":\"%s\",\"threads\":[", F->name);
	for (t = 0; t < nthreads; t++) {
		struct script *s = &scripts[t];
		s->nops = 1 + rnd(usim_tier() ? 7 : 5);
		nsig[t] = (int) usim_paramf(rnd(4), "nsignals.%d", t);
		for (i = 0; i < nsig[t]; i++) {
			sigat[t][i] = 1 + rnd(rnd(2) ? 60 : 600);
			signo_of[t][i] = (i & 1) ? 12 : 10;
		}
		usim_describe("%s{\"signals\":%d,\"ops\":[", t ? "," : "", nsig[t]);
		for (i = 0; i < s->nops; i++) {
			struct op *op = &s->ops[i];
			uint32_t r = rnd(100);
			op->kind = r < 45 ? OP_READ : r < 65 ? OP_UPDATE : r < 80 ? OP_SYNC : OP_CALL;
			op->a = 1 + rnd(3);
			op->b = rnd(4);
			usim_describe("%s\"%s\"", i ? "," : "", opname[op->kind]);
		}
		usim_describe("]}");
	}
	usim_describe("]}");
	script_apply_skips(scripts, nthreads);
	gptr = malloc(sizeof(*gptr));
	usim_mem_tag(gptr, "rcu-object");
	gptr->version = 0;
	gptr->a = 1;
	gptr->b = 2;
	for (t = 0; t < nthreads; t++)
		if (!scripts[t].skip)
			voters++;
	usim_quiet_expect(voters);
	for (t = 0; t < nthreads; t++)
		if (!scripts[t].skip)
			pthread_create(&scripts[t].th, NULL, s_thread, &scripts[t]);
	for (t = 0; t < nthreads; t++)
		if (!scripts[t].skip)
			pthread_join(scripts[t].th, NULL);
	F->barrier();
}
