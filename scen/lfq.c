/*
 * lfq.c — scenario `lfq` (C12): cds_lfq_*_rcu checked for FIFO
 * linearizability (WGL); dummy nodes never returned and reclaimed only after
 * a grace period (tracked arena); destroy succeeds exactly when empty.
 */
#include "common.h"
#include "wgl.h"
#include <urcu/rculfqueue.h>
#include <urcu/static/rculfqueue.h>	/* struct cds_lfq_node_rcu_dummy (to recognise a dummy handed to call_rcu) */
#include <urcu/call-rcu.h>

enum { OP_ENQ, OP_DEQ, OP_DEQ_REENQ, OP_NK };
static const char *const opname[] = { "enq", "deq", "deq_reenq" };

struct lnode {
	struct cds_lfq_node_rcu n;
	struct rcu_head rh;
	int id;
	long magic;
};
#define LMAGIC 0x1f9a11ce5eedL

static struct cds_lfq_queue_rcu q;
static const struct flavor_ops *F;
static struct wgl_hist H;
static struct script scripts[MAX_SCRIPT_THREADS];
static int nthreads;

static void free_node_cb(struct rcu_head *h)
{
	free(caa_container_of(h, struct lnode, rh));
}

/*
 * Witness steering. If a node leaves the queue (returned by dequeue, or a dummy
 * handed to call_rcu) while q->tail still points to it, a use-after-free is one
 * legal continuation away: a thread that starts its read-side section after the
 * node's grace period has begun can still load the node from q->tail and write to
 * it after it has been reclaimed. Instead of waiting for a scheduler to stumble
 * on that continuation (three more precisely placed preemptions), the thread
 * that observes the state drives it, with the real library code and nothing but
 * legal scheduling (freezing threads where they stand):
 *   1. every other script thread is frozen (among them the enqueuer that linked
 *      its node but has not moved the tail yet, inside its read-side section);
 *   2. the node's grace period is started (user node: a helper thread calls
 *      synchronize_rcu() and then frees it; dummy: the library's call_rcu);
 *   3. a fresh thread enters a read-side section, starts cds_lfq_enqueue_rcu()
 *      and is suspended right after it has sampled q->tail;
 *   4. the others are released: the tail moves on, the grace period ends, the
 *      node is freed; the fresh thread resumes.
 * If the library is right nothing bad can happen (and on the unchanged tree the
 * state is never observed); if it is wrong the tracked arena reports the
 * use-after-free.
 */
static int sim_tid_of[MAX_SCRIPT_THREADS], steered, probe_id = 60;
static struct cds_lfq_node_rcu *latent_dummy;

HARNESS_BOOKKEEPING static int tail_is(const struct cds_lfq_node_rcu *n)
{
	return q.tail == n;
}

static void *steer_gp_thread(void *arg)
{
	struct lnode *n = arg;
	usim_thread_name("steer-gp");
	if (!F->is_bp)
		F->register_thread();
	F->synchronize_rcu();
	free(n);
	if (!F->is_bp)
		F->unregister_thread();
	return NULL;
}

static void *steer_probe_thread(void *arg)
{
	struct lnode *p = arg;
	int i;
	usim_thread_name("steer-probe");
	if (!F->is_bp)
		F->register_thread();
	cds_lfq_node_init_rcu(&p->n);
	F->read_lock();
	i = wgl_begin(&H, WQ_ENQ, 0, p->id);
	usim_stall_plan(2, 8000);	/* after the load of q->tail, before the cmpxchg on tail->next */
	cds_lfq_enqueue_rcu(&q, &p->n);
	usim_stall_cancel();
	wgl_end(&H, i, -1);
	F->read_unlock();
	if (!F->is_bp)
		F->unregister_thread();
	return NULL;
}

/* returns 1 if `victim` (a user node) has been reclaimed here */
static int steer(struct lnode *victim)
{
	pthread_t g = 0, pr;
	struct lnode *p;
	int t, me = usim_tid();

	if (steered || usim_in_quiet())
		return 0;
	steered = 1;
	usim_probe("lfq.steered_from_removed_node_still_tail");
	for (t = 0; t < nthreads; t++)
		if (!scripts[t].skip && sim_tid_of[t] > 0 && sim_tid_of[t] != me)
			usim_freeze(sim_tid_of[t], 1);
	if (F->is_qsbr)
		F->thread_offline();
	if (victim)
		pthread_create(&g, NULL, steer_gp_thread, victim);
	usleep(30000);
	p = malloc(sizeof(*p));
	usim_mem_tag(p, "lfq-node");
	p->id = probe_id++;
	p->magic = LMAGIC;
	pthread_create(&pr, NULL, steer_probe_thread, p);
	usleep(30000);
	for (t = 0; t < nthreads; t++)
		if (!scripts[t].skip && sim_tid_of[t] > 0 && sim_tid_of[t] != me)
			usim_freeze(sim_tid_of[t], 0);
	if (victim)
		pthread_join(g, NULL);
	pthread_join(pr, NULL);
	if (F->is_qsbr)
		F->thread_online();
	return victim != NULL;
}

static void q_call_rcu(struct rcu_head *head, void (*func)(struct rcu_head *head))
{
	/* a dummy node handed over for reclamation: remember it if the tail still points to it */
	struct cds_lfq_node_rcu_dummy *d = caa_container_of(head, struct cds_lfq_node_rcu_dummy, head);
	if (tail_is(&d->parent))
		latent_dummy = &d->parent;
	F->call_rcu(head, func);
}

/* planned suspension of the next queue operation of the calling thread (set per op, consumed once) */
static __thread int stall_ord;
static __thread uint32_t stall_len;

static void plan_stall(void)
{
	if (stall_ord) {
		usim_stall_plan(stall_ord, stall_len);
		stall_ord = 0;
	}
}

static void enq(int id, struct lnode *n)
{
	int i;
	if (!n) {
		n = malloc(sizeof(*n));
		usim_mem_tag(n, "lfq-node");
		n->id = id;
		n->magic = LMAGIC;
	}
	cds_lfq_node_init_rcu(&n->n);
	F->read_lock();
	i = wgl_begin(&H, WQ_ENQ, 0, id);
	plan_stall();
	cds_lfq_enqueue_rcu(&q, &n->n);
	usim_stall_cancel();
	wgl_end(&H, i, -1);
	F->read_unlock();
}

static struct lnode *deq(void)
{
	struct cds_lfq_node_rcu *r;
	struct lnode *n = NULL;
	int i;

	F->read_lock();
	i = wgl_begin(&H, WQ_DEQ, 0, 0);
	plan_stall();
	r = cds_lfq_dequeue_rcu(&q);
	usim_stall_cancel();
	if (r) {
		if (r->dummy)
			usim_fail("lfq-dummy-returned", "cds_lfq_dequeue_rcu returned an internal dummy node");
		n = caa_container_of(RET_NODE(r, "cds_lfq_dequeue_rcu"), struct lnode, n);
		if (n->magic != LMAGIC)
			usim_fail("lfq-dummy-returned", "cds_lfq_dequeue_rcu returned a node that is not a user node");
	}
	wgl_end(&H, i, n ? n->id : -1);
	F->read_unlock();
	if (latent_dummy) {
		if (tail_is(latent_dummy))
			steer(NULL);
		latent_dummy = NULL;
	}
	return n;
}

static void do_op(struct op *op)
{
	struct lnode *n;

	if (H.n + 2 > WGL_MAXOPS - 20)
		return;
	/* some operations are suspended for a while between two of their shared-memory accesses */
	stall_ord = op->a;
	stall_len = (uint32_t) op->b;
	switch (op->kind) {
	case OP_ENQ:
		enq((int) op->v, NULL);
		break;
	case OP_DEQ:
		n = deq();
		if (!n)
			break;
		if (tail_is(&n->n) && steer(n))
			break;		/* reclaimed by the steering helper after a grace period */
		if (n->id % 3 == 0) {
			F->call_rcu(&n->rh, free_node_cb);
		} else if (n->id % 3 == 1) {
			F->synchronize_rcu();
			free(n);
		}
		break;
	case OP_DEQ_REENQ:
		n = deq();
		if (!n)
			break;
		F->synchronize_rcu();	/* a dequeued node may be reused only after a grace period */
		enq(n->id, n);
		usim_probe("lfq.node_recycled");
		break;
	}
	stall_ord = 0;
}

static void *l_thread(void *arg)
{
	struct script *s = arg;
	int me = (int) (s - scripts), i;

	usim_thread_name("script%d", me);
	sim_tid_of[me] = usim_tid();
	if (!F->is_bp)
		F->register_thread();
	if (F->is_qsbr)
		F->thread_offline();
	for (i = 0; i < s->nops; i++) {
		struct op *op = &s->ops[i];
		if (op->skip)
			continue;
		usim_trace("op %d.%d %s", me, i, opname[op->kind]);
		if (F->is_qsbr)
			F->thread_online();
		do_op(op);
		if (F->is_qsbr)
			F->thread_offline();
	}
	usim_quiet_vote();
	if (!F->is_bp)
		F->unregister_thread();
	return NULL;
}

void scen_lfq(void)
{
	int t, i, voters = 0, total = 0, id = 0, r, guard = 0;
	char why[3000];

	no_faults();
	choose_futex_faults(0);
	wgl_init(&H, WGL_FIFO);
	F = choose_flavor(0xf);
	choose_rcu_knobs(0);
	nthreads = (int) usim_param("nthreads", 2 + rnd(3));
	usim_describe("\"flavor\":\"%s\",\"threads\":[", F->name);
	if (!F->is_bp)
		F->register_thread();
	cds_lfq_init_rcu(&q, q_call_rcu);
	if (F->is_qsbr)
		F->thread_offline();
	for (t = 0; t < nthreads; t++) {
		struct script *s = &scripts[t];
		s->nops = 1 + rnd(usim_tier() ? 7 : 5);
		if (total + s->nops > 16)
			s->nops = 16 - total > 0 ? 16 - total : 0;
		total += s->nops;
		usim_describe("%s[", t ? "," : "");
		for (i = 0; i < s->nops; i++) {
			struct op *op = &s->ops[i];
			uint32_t x = rnd(100);
			op->v = id++;
			op->kind = x < 50 ? OP_ENQ : x < 88 ? OP_DEQ : OP_DEQ_REENQ;
			op->a = rnd(3) == 0 ? 1 + (int) rnd(5) : 0;	/* suspended at its a-th atomic access ... */
			op->b = 50 + (int) rnd(2500);			/* ... for b scheduler steps */
			usim_describe("%s\"%s\"", i ? "," : "", opname[op->kind]);
		}
		usim_describe("]");
	}
	usim_describe("]");
	/*
	 * Roles (a third of the runs with >= 3 threads): one thread's enqueues are suspended between linking
	 * the node and moving the tail, another's right after sampling the tail (for a long time), the rest
	 * mostly dequeue: the states the quantifier of C12 names ("threads suspended between linking a node
	 * and advancing the tail") next to nodes being reclaimed after a grace period.
	 */
	if (nthreads >= 3 && usim_param("roles", rnd(3) == 0)) {
		for (t = 0; t < nthreads; t++)
			for (i = 0; i < scripts[t].nops; i++) {
				struct op *op = &scripts[t].ops[i];
				if (t == 0) {
					op->kind = OP_ENQ; op->a = 3; op->b = 200 + (int) rnd(2500);
				} else if (t == 1) {
					op->kind = OP_ENQ; op->a = 2; op->b = 1500 + (int) rnd(4000);
				} else if (rnd(100) < 75) {
					op->kind = OP_DEQ; op->a = rnd(3) ? 0 : 1 + (int) rnd(5);
				}
			}
		usim_describe(",\"roles\":1");
	}
	script_apply_skips(scripts, nthreads);
	for (t = 0; t < nthreads; t++)
		if (!scripts[t].skip)
			voters++;
	usim_quiet_expect(voters);
	for (t = 0; t < nthreads; t++)
		if (!scripts[t].skip)
			pthread_create(&scripts[t].th, NULL, l_thread, &scripts[t]);
	for (t = 0; t < nthreads; t++)
		if (!scripts[t].skip)
			pthread_join(scripts[t].th, NULL);
	/* destroy succeeds exactly when the queue is empty */
	if (F->is_qsbr)
		F->thread_online();
	r = cds_lfq_destroy_rcu(&q);
	if (r != 0) {
		struct lnode *n;
		int first = 1;
		/* destroy refused: then the queue must really hold a node */
		while ((n = deq()) != NULL) {
			first = 0;
			if (++guard > WGL_MAXLIST)
				usim_fail("lfq-drain", "final drain does not terminate");
		}
		if (first)
			usim_fail("lfq-destroy-empty-refused",
				"cds_lfq_destroy_rcu returned %d (not empty) at quiescence although the queue is empty: the next dequeue returned NULL", r);
		r = cds_lfq_destroy_rcu(&q);
		if (r != 0)
			usim_fail("lfq-destroy-empty-refused", "cds_lfq_destroy_rcu failed (%d) on a queue whose dequeue just returned NULL", r);
	} else {
		/* destroy succeeded: the model must agree that the queue is empty */
		i = wgl_begin(&H, WQ_EMPTY, 0, 0);
		wgl_end(&H, i, 1);
	}
	if (F->is_qsbr)
		F->thread_offline();
	/* every dummy handed to call_rcu must be reclaimed without a later touch */
	F->barrier();
	if (!F->is_bp)
		F->unregister_thread();
	if (!wgl_check(&H, why, sizeof(why)))
		usim_fail("not-linearizable", "rculfqueue history is not a linearizable FIFO: %s", why);
	if (wgl_has_overlap(&H))
		usim_mark_nontrivial();
	usim_probe_n("wgl.states", H.states_explored);
}
