#include "wgl.h"
