/* wgl.c — Wing-Gong-Lowe linearizability checker (uninstrumented) */
#include "wgl.h"
#include "../usim/usim.h"
#include <string.h>
#include <stdlib.h>
#include <stdio.h>

struct wstate {
	uint8_t qlen[2];
	uint8_t q[2][WGL_MAXLIST];
	uint8_t tlen[4];
	uint8_t tvalid[4];
	uint8_t tmp[4][WGL_MAXLIST];
	uint64_t set;
};

static struct wstate init_state;

void wgl_init(struct wgl_hist *h, int model)
{
	memset(h, 0, sizeof(*h));
	h->model = model;
	memset(&init_state, 0, sizeof(init_state));
}

void wgl_initial_add(struct wgl_hist *h, int a, int id)
{
	if (h->model == WGL_SET)
		init_state.set |= 1ULL << id;
	else if (init_state.qlen[a] < WGL_MAXLIST)
		init_state.q[a][init_state.qlen[a]++] = (uint8_t) id;
}

int wgl_full(const struct wgl_hist *h) { return h->n >= WGL_MAXOPS; }

int wgl_begin(struct wgl_hist *h, int kind, int a, int b)
{
	struct wgl_op *op;
	if (h->n >= WGL_MAXOPS)
		usim_bug("wgl: history too long");
	op = &h->ops[h->n];
	memset(op, 0, sizeof(*op));
	op->kind = kind;
	op->a = a;
	op->b = b;
	op->after = -1;
	op->thread = usim_tid();
	op->r2 = -1;
	op->inv = usim_seq();
	op->ret = ~0ULL;
	return h->n++;
}

void wgl_end(struct wgl_hist *h, int idx, long r)
{
	h->ops[idx].r = r;
	h->ops[idx].ret = usim_seq();
}

void wgl_end2(struct wgl_hist *h, int idx, long r, long r2)
{
	h->ops[idx].r2 = r2;
	wgl_end(h, idx, r);
}

void wgl_list_add(struct wgl_hist *h, int idx, int id)
{
	struct wgl_op *op = &h->ops[idx];
	if (op->nlist >= WGL_MAXLIST)
		usim_bug("wgl: list too long");
	op->list[op->nlist++] = (uint8_t) id;
}

void wgl_set_after(struct wgl_hist *h, int idx, int after) { h->ops[idx].after = after; }

void wgl_cancel(struct wgl_hist *h, int idx)
{
	h->ops[idx].kind = -1;
	h->ops[idx].ret = usim_seq();
}

int wgl_has_overlap(const struct wgl_hist *h)
{
	int i, j;
	for (i = 0; i < h->n; i++)
		for (j = i + 1; j < h->n; j++) {
			const struct wgl_op *a = &h->ops[i], *b = &h->ops[j];
			if (a->kind < 0 || b->kind < 0 || a->thread == b->thread)
				continue;
			if (a->inv < b->ret && b->inv < a->ret)
				return 1;
		}
	return 0;
}

/* ---- models ---- */

static int apply(int model, struct wstate *s, const struct wgl_op *op)
{
	int i, q = op->a;
	(void) model;

	switch (op->kind) {
	case WQ_ENQ:
		if (op->r >= 0 && (op->r != 0) != (s->qlen[q] != 0))
			return 0;
		if (s->qlen[q] >= WGL_MAXLIST)
			return 0;
		s->q[q][s->qlen[q]++] = (uint8_t) op->b;
		return 1;
	case WQ_DEQ:
		if (op->r < 0)
			return s->qlen[q] == 0;
		if (!s->qlen[q] || s->q[q][0] != op->r)
			return 0;
		memmove(&s->q[q][0], &s->q[q][1], s->qlen[q] - 1);
		s->qlen[q]--;
		return 1;
	case WQ_EMPTY:
		return (op->r != 0) == (s->qlen[q] == 0);
	case WQ_SPLICE_DRAIN:
		s->tlen[op->b] = s->qlen[q];
		memcpy(s->tmp[op->b], s->q[q], s->qlen[q]);
		s->tvalid[op->b] = 1;
		s->qlen[q] = 0;
		return 1;
	case WQ_SPLICE_APPEND: {
		int t = op->b;
		if (!s->tvalid[t])
			return 0;
		if (s->tlen[t] == 0) {
			if (op->r != 0)
				return 0;
		} else {
			if (op->r == 0)
				return 0;
			if ((op->r == 1) != (s->qlen[q] == 0))
				return 0;
			if (s->qlen[q] + s->tlen[t] > WGL_MAXLIST)
				return 0;
			memcpy(&s->q[q][s->qlen[q]], s->tmp[t], s->tlen[t]);
			s->qlen[q] += s->tlen[t];
		}
		s->tvalid[t] = 0;
		s->tlen[t] = 0;
		return 1;
	}
	case WQ_ITER:
		if (op->nlist != s->qlen[q])
			return 0;
		return memcmp(op->list, s->q[q], op->nlist) == 0;
	case WS_PUSH:
		if (op->r >= 0 && (op->r != 0) != (s->qlen[0] != 0))
			return 0;
		if (s->qlen[0] >= WGL_MAXLIST)
			return 0;
		s->q[0][s->qlen[0]++] = (uint8_t) op->b;
		return 1;
	case WS_POP:
		if (op->r < 0)
			return s->qlen[0] == 0;
		if (!s->qlen[0] || s->q[0][s->qlen[0] - 1] != op->r)
			return 0;
		s->qlen[0]--;
		if (op->r2 >= 0 && (op->r2 != 0) != (s->qlen[0] == 0))
			return 0;
		return 1;
	case WS_POP_ALL:
		if (op->nlist != s->qlen[0])
			return 0;
		for (i = 0; i < op->nlist; i++)
			if (op->list[i] != s->q[0][s->qlen[0] - 1 - i])
				return 0;
		s->qlen[0] = 0;
		return 1;
	case WS_EMPTY:
		return (op->r != 0) == (s->qlen[0] == 0);
	case WH_ADD:
		if (s->set & (1ULL << op->b))
			return 0;
		s->set |= 1ULL << op->b;
		return 1;
	case WH_ADD_UNIQUE:
		if (op->r == op->b) {
			if (s->set)
				return 0;
			s->set |= 1ULL << op->b;
			return 1;
		}
		return op->r >= 0 && (s->set & (1ULL << op->r)) != 0;
	case WH_ADD_REPLACE:
		if (op->r < 0) {
			if (s->set)
				return 0;
			s->set |= 1ULL << op->b;
			return 1;
		}
		if (!(s->set & (1ULL << op->r)))
			return 0;
		s->set &= ~(1ULL << op->r);
		s->set |= 1ULL << op->b;
		return 1;
	case WH_REPLACE:
		if (op->r == 0) {
			if (!(s->set & (1ULL << op->a)))
				return 0;
			s->set &= ~(1ULL << op->a);
			s->set |= 1ULL << op->b;
			return 1;
		}
		return !(s->set & (1ULL << op->a));
	case WH_DEL:
		if (op->r == 0) {
			if (!(s->set & (1ULL << op->b)))
				return 0;
			s->set &= ~(1ULL << op->b);
			return 1;
		}
		return !(s->set & (1ULL << op->b));
	case WH_LOOKUP:
		if (op->r < 0)
			return s->set == 0;
		return (s->set & (1ULL << op->r)) != 0;
	case WH_WALK: {
		uint64_t m = 0;
		for (i = 0; i < op->nlist; i++)
			m |= 1ULL << op->list[i];
		return m == s->set;
	}
	case WH_ABSENT_OK:
		return 1;
	}
	return 0;
}

/* ---- memo ---- */

struct memo_ent { uint64_t key; uint64_t mask; uint32_t used; };
static struct memo_ent *memo;
static uint32_t memo_cap, memo_n;

static uint64_t hash_state(uint64_t mask, const struct wstate *s)
{
	const uint8_t *p = (const uint8_t *) s;
	uint64_t h = 0xcbf29ce484222325ULL ^ mask;
	size_t i;
	for (i = 0; i < sizeof(*s); i++) {
		h ^= p[i];
		h *= 0x100000001b3ULL;
	}
	h ^= h >> 31;
	return h ? h : 1;
}

static int memo_test_and_set(uint64_t mask, uint64_t key)
{
	uint32_t i;
	if (memo_n * 2 >= memo_cap) {
		uint32_t ncap = memo_cap ? memo_cap * 2 : 1 << 12, j;
		struct memo_ent *nm = calloc(ncap, sizeof(*nm));
		for (j = 0; j < memo_cap; j++)
			if (memo[j].used) {
				uint32_t k = (uint32_t) (memo[j].key ^ (memo[j].mask * 0x9e3779b97f4a7c15ULL) >> 13) & (ncap - 1);
				while (nm[k].used)
					k = (k + 1) & (ncap - 1);
				nm[k] = memo[j];
			}
		free(memo);
		memo = nm;
		memo_cap = ncap;
	}
	i = (uint32_t) (key ^ (mask * 0x9e3779b97f4a7c15ULL) >> 13) & (memo_cap - 1);
	while (memo[i].used) {
		if (memo[i].key == key && memo[i].mask == mask)
			return 1;
		i = (i + 1) & (memo_cap - 1);
	}
	memo[i].used = 1;
	memo[i].key = key;
	memo[i].mask = mask;
	memo_n++;
	return 0;
}

static const struct wgl_hist *H;
static uint64_t ALL;
static uint64_t explored;
static uint64_t best_mask;
static int best_count;

static int popcount32(uint64_t x) { return __builtin_popcountll(x); }

static int search(uint64_t mask, const struct wstate *s)
{
	uint64_t minret = ~0ULL;
	int i;

	if (mask == ALL)
		return 1;
	if (memo_test_and_set(mask, hash_state(mask, s)))
		return 0;
	if (++explored > 4000000)
		return -1;
	if (popcount32(mask) > best_count) {
		best_count = popcount32(mask);
		best_mask = mask;
	}
	for (i = 0; i < H->n; i++)
		if (!(mask & (1ULL << i)) && H->ops[i].kind >= 0 && H->ops[i].ret < minret)
			minret = H->ops[i].ret;
	for (i = 0; i < H->n; i++) {
		const struct wgl_op *op = &H->ops[i];
		struct wstate s2;
		int r;
		if ((mask & (1ULL << i)) || op->kind < 0)
			continue;
		if (op->inv > minret)
			continue;	/* some other pending op returned before this one was invoked */
		if (op->after >= 0 && !(mask & (1ULL << op->after)))
			continue;
		s2 = *s;
		if (!apply(H->model, &s2, op))
			continue;
		r = search(mask | (1ULL << i), &s2);
		if (r)
			return r;
	}
	return 0;
}

static const char *kname(int k)
{
	static const char *const n[] = { "enq", "deq", "empty", "splice_drain", "splice_append", "iter",
		"push", "pop", "pop_all", "stack_empty", "add", "add_unique", "add_replace", "replace",
		"del", "lookup", "walk", "nop" };
	return k >= 0 && k < (int) (sizeof(n) / sizeof(n[0])) ? n[k] : "?";
}

int wgl_check(struct wgl_hist *h, char *why, int whylen)
{
	int i, r, n = 0;

	H = h;
	ALL = 0;
	for (i = 0; i < h->n; i++) {
		if (h->ops[i].kind >= 0)
			ALL |= 1ULL << i;
		if (h->ops[i].kind >= 0 && h->ops[i].ret == ~0ULL)
			usim_bug("wgl: operation %d never returned", i);
	}
	free(memo);
	memo = NULL;
	memo_cap = memo_n = 0;
	explored = 0;
	best_mask = 0;
	best_count = -1;
	r = search(0, &init_state);
	h->states_explored = explored;
	if (r == 1)
		return 1;
	if (r < 0)
		return 1;	/* budget exhausted: inconclusive, never an alarm */
	if (why) {
		n += snprintf(why + n, whylen - n, "no linearization exists; history:");
		for (i = 0; i < h->n && n < whylen - 80; i++) {
			const struct wgl_op *op = &h->ops[i];
			int k;
			if (op->kind < 0)
				continue;
			n += snprintf(why + n, whylen - n, " [%d T%d %s(a=%d,b=%d)->%ld", i, op->thread,
				kname(op->kind), op->a, op->b, op->r);
			if (op->r2 >= 0)
				n += snprintf(why + n, whylen - n, "/%ld", op->r2);
			if (op->nlist || op->kind == WQ_ITER || op->kind == WS_POP_ALL || op->kind == WH_WALK) {
				n += snprintf(why + n, whylen - n, " {");
				for (k = 0; k < op->nlist && n < whylen - 40; k++)
					n += snprintf(why + n, whylen - n, "%s%d", k ? "," : "", op->list[k]);
				n += snprintf(why + n, whylen - n, "}");
			}
			n += snprintf(why + n, whylen - n, " @%lu-%lu]", (unsigned long) op->inv, (unsigned long) op->ret);
		}
		n += snprintf(why + n, whylen - n, " ; longest linearizable prefix set mask=%#lx", (unsigned long) best_mask);
	}
	return 0;
}
