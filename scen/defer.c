/*
 * defer.c — scenario `defer` (C13): defer_rcu() encoding/ordering, queue wrap,
 * barriers, background reclaimer liveness, (un)registration and re-registration.
 */
#include "common.h"
#include <unistd.h>
#include <urcu/uatomic.h>
#include <urcu/pointer.h>

enum { OP_DEFER, OP_BURST, OP_READ, OP_UPDATE_DEFER, OP_BARRIER, OP_BARRIER_THREAD, OP_REREG, OP_QS, OP_NK };
static const char *const opname[] = { "defer", "burst", "read", "update_defer", "barrier", "barrier_thread", "rereg", "qs" };

struct obj { long version, a, pad[2], b; };

static const struct flavor_ops *F;
static struct obj *gptr;
static pthread_mutex_t upd_lock = PTHREAD_MUTEX_INITIALIZER;
static long version_ctr;
static struct script scripts[MAX_SCRIPT_THREADS];
static int nthreads;
static int qcs[MAX_SCRIPT_THREADS];
static int wait_for_reclaimer[MAX_SCRIPT_THREADS];

/*
 * Deferred functions. Each thread has its own set so that an invocation is
 * attributed to its queue unambiguously (arguments repeat across threads on
 * purpose). Function index = thread * 8 + k; k == 3 lives at an odd address,
 * k == 4 reclaims its argument.
 */
/* the bodies take a little while (yield points), so that "has run" and "has been started" differ */
#define BODY(T, k, n) do { int j_; orc_defer_invoked(T * 8 + k, p); for (j_ = 0; j_ < n; j_++) usim_pause(); orc_defer_finished(T * 8 + k, p); } while (0)
#define THREAD_FNS(T)								\
static void fn##T##_0(void *p) { BODY(T, 0, 0); }				\
static void fn##T##_1(void *p) { BODY(T, 1, 2); }				\
static void fn##T##_2(void *p) { BODY(T, 2, 1); }				\
void usim_fn_odd_target##T(void *p) { BODY(T, 3, 1); }				\
extern void usim_odd_fn##T(void *p);						\
__asm__(".text\n"								\
	".balign 16\n"								\
	".byte 0x90\n"								\
	".globl usim_odd_fn" #T "\n"						\
	".type usim_odd_fn" #T ",@function\n"					\
	"usim_odd_fn" #T ":\n"							\
	"\tjmp usim_fn_odd_target" #T "\n"					\
	".size usim_odd_fn" #T ", .-usim_odd_fn" #T "\n");			\
static void fn##T##_4(void *p) { orc_defer_invoked(T * 8 + 4, p); free(p); orc_defer_finished(T * 8 + 4, p); }

THREAD_FNS(0)
THREAD_FNS(1)
THREAD_FNS(2)
THREAD_FNS(3)

static void (*const fns[4][5])(void *) = {
	{ fn0_0, fn0_1, fn0_2, usim_odd_fn0, fn0_4 },
	{ fn1_0, fn1_1, fn1_2, usim_odd_fn1, fn1_4 },
	{ fn2_0, fn2_1, fn2_2, usim_odd_fn2, fn2_4 },
	{ fn3_0, fn3_1, fn3_2, usim_odd_fn3, fn3_4 },
};

static void *arg_pattern(int k, int salt)
{
	switch (k % 10) {
	case 0: return NULL;
	case 1: return (void *) 1L;
	case 2: return (void *) -1L;
	case 3: return (void *) -2L;		/* the queue's internal marker value */
	case 4: return (void *) -3L;
	case 5: return (void *) (0x1001L + salt * 2);	/* low bit set */
	case 6: return (void *) (0x2000L + salt * 16);
	case 7: return (void *) ~1L;
	case 8: return (void *) (long) (salt | 1);
	default: return (void *) (0x7f0000000000L + salt * 8);
	}
}

HARNESS_BOOKKEEPING static void qsbr_close(int me)
{
	if (F->is_qsbr && qcs[me] >= 0) {
		orc_cs_end(qcs[me]);
		qcs[me] = -1;
	}
}

HARNESS_BOOKKEEPING static void qsbr_open(int me)
{
	if (F->is_qsbr)
		qcs[me] = orc_cs_begin(me);
}

/* qsbr: an online thread counts as inside a read-side critical section, and
 * the defer API must never be used from one (it may call synchronize_rcu()
 * and takes the mutex the reclaimer holds across its grace period) */
static void api_begin(int me)
{
	if (F->is_qsbr) {
		qsbr_close(me);
		F->thread_offline();
	}
}

static void api_end(int me)
{
	if (F->is_qsbr) {
		F->thread_online();
		qsbr_open(me);
	}
}

static void do_defer(int me, int fn, void *arg)
{
	api_begin(me);
	orc_defer_queue(me, me * 8 + fn, arg);
	F->defer_rcu(fns[me][fn], arg);
	orc_defer_queued(me);
	api_end(me);
}

static void do_read(int me, struct op *op)
{
	int d, cs = -1, i;
	struct obj *p;
	long v, a, b;
	int depth = F->is_qsbr ? 0 : op->a;

	for (d = 0; d < depth; d++) {
		F->read_lock();
		if (d == 0)
			cs = orc_cs_begin(me);
	}
	p = rcu_dereference(gptr);
	v = p->version;
	a = p->a;
	for (i = 0; i < op->b; i++)
		usim_pause();
	b = p->b;
	if (a != v * 3 + 1 || b != v * 7 + 2)
		usim_fail("reclaimed-object-read", "reader %d saw object version %ld with a=%ld b=%ld", me, v, a, b);
	for (d = 0; d < depth; d++) {
		if (d == depth - 1)
			orc_cs_end(cs);
		F->read_unlock();
	}
}

static void *defer_thread(void *arg)
{
	struct script *s = arg;
	int me = (int) (s - scripts), i, k, m;

	usim_thread_name("script%d", me);
	if (!F->is_bp)
		F->register_thread();
	qsbr_open(me);
	api_begin(me);
	if (F->defer_register_thread())
		usim_fail("api-error", "rcu_defer_register_thread failed");
	api_end(me);
	for (i = 0; i < s->nops; i++) {
		struct op *op = &s->ops[i];
		if (op->skip)
			continue;
		usim_trace("op %d.%d %s", me, i, opname[op->kind]);
		op_stall_begin(op);
		switch (op->kind) {
		case OP_DEFER:
			do_defer(me, op->a, arg_pattern(op->b, op->c));
			break;
		case OP_BURST:
			for (k = 0; k < op->c; k++)
				do_defer(me, (op->a + (k / 3)) % 4, arg_pattern(op->b + k, k));
			break;
		case OP_READ: do_read(me, op); break;
		case OP_UPDATE_DEFER: {
			struct obj *n = malloc(sizeof(*n)), *old;
			usim_mem_tag(n, "rcu-object");
			pthread_mutex_lock(&upd_lock);
			n->version = ++version_ctr;
			n->a = n->version * 3 + 1;
			n->b = n->version * 7 + 2;
			old = gptr;
			rcu_assign_pointer(gptr, n);
			pthread_mutex_unlock(&upd_lock);
			do_defer(me, 4, old);
			break;
		}
		case OP_BARRIER:
			api_begin(me);
			m = orc_defer_mark(me);
			F->defer_barrier();
			orc_defer_check_all(m, "rcu_defer_barrier()");
			api_end(me);
			break;
		case OP_BARRIER_THREAD:
			api_begin(me);
			m = orc_defer_mark(me);
			F->defer_barrier_thread();
			orc_defer_check_thread(me, m, "rcu_defer_barrier_thread()");
			api_end(me);
			break;
		case OP_REREG:
			api_begin(me);
			m = orc_defer_mark(me);
			F->defer_unregister_thread();
			orc_defer_check_thread(me, m, "rcu_defer_unregister_thread()");
			for (k = 0; k < op->b; k++)
				usim_pause();
			if (F->defer_register_thread())
				usim_fail("api-error", "rcu_defer_register_thread failed");
			api_end(me);
			break;
		case OP_QS:
			if (F->is_qsbr) {
				qsbr_close(me);
				F->quiescent_state();
				qsbr_open(me);
			}
			break;
		}
		op_stall_end();
	}
	usim_quiet_vote();
	if (wait_for_reclaimer[me]) {
		/* no further API call: the background reclaimer must run everything */
		api_begin(me);
		while (orc_defer_pending(me))
			usleep(20000);
		api_end(me);
		usim_probe("defer.reclaimer_ran_everything");
	}
	api_begin(me);
	m = orc_defer_mark(me);
	F->defer_unregister_thread();
	orc_defer_check_thread(me, m, "rcu_defer_unregister_thread()");
	api_end(me);
	qsbr_close(me);
	if (!F->is_bp)
		F->unregister_thread();
	return NULL;
}

void scen_defer(void)
{
	int t, i, voters = 0, maxthr = usim_tier() ? 4 : 3, maxops = usim_tier() ? 9 : 6;
	static const int qsizes[] = { 8, 16, 32 };
	int qsize;

	orc_reset();
	F = choose_flavor(0xf);
	choose_futex_faults(1);
	nthreads = (int) usim_param("nthreads", 1 + rnd(maxthr));
	qsize = (int) usim_param("knob.defer_queue_size", qsizes[rnd(3)]);
	usim_set_knob(URCU_VERIF_KNOB_DEFER_QUEUE_SIZE, qsize);
	usim_describe("{\"flavor\":\"%s\",\"defer_queue_size\":%d,", F->name, qsize);
	choose_rcu_knobs(1);
	usim_describe("\"threads\":[");
	for (t = 0; t < nthreads; t++) {
		struct script *s = &scripts[t];
		s->nops = 1 + rnd(maxops);
		wait_for_reclaimer[t] = (int) usim_paramf(rnd(3) == 0, "wait_reclaimer.%d", t);
		usim_describe("%s[", t ? "," : "");
		for (i = 0; i < s->nops; i++) {
			struct op *op = &s->ops[i];
			uint32_t r = rnd(100);
			if (r < 30) op->kind = OP_DEFER;
			else if (r < 42) op->kind = OP_BURST;
			else if (r < 58) op->kind = OP_READ;
			else if (r < 68) op->kind = OP_UPDATE_DEFER;
			else if (r < 76) op->kind = OP_BARRIER;
			else if (r < 84) op->kind = OP_BARRIER_THREAD;
			else if (r < 94) op->kind = OP_REREG;
			else op->kind = OP_QS;
			op->a = rnd(4);
			op->b = rnd(10);
			op->c = 1 + rnd(usim_tier() ? 40 : 20);
			if (op->kind == OP_READ) { op->a = 1 + rnd(3); op->b = rnd(4); }
			if (op->kind == OP_REREG) op->b = rnd(3);
			op_stall_gen(op, 5, 16);
			usim_describe("%s\"%s", i ? "," : "", opname[op->kind]);
			if (op->kind == OP_DEFER) usim_describe("(fn%d,%p)", op->a, arg_pattern(op->b, op->c));
			if (op->kind == OP_BURST) usim_describe("(%d)", op->c);
			usim_describe("\"");
		}
		usim_describe("]%s", wait_for_reclaimer[t] ? "" : "");
	}
	usim_describe("]}");
	script_apply_skips(scripts, nthreads);
	gptr = malloc(sizeof(*gptr));
	usim_mem_tag(gptr, "rcu-object");
	gptr->version = 0;
	gptr->a = 1;
	gptr->b = 2;
	for (t = 0; t < nthreads; t++) {
		qcs[t] = -1;
		if (!scripts[t].skip)
			voters++;
	}
	usim_quiet_expect(voters);
	for (t = 0; t < nthreads; t++)
		if (!scripts[t].skip)
			pthread_create(&scripts[t].th, NULL, defer_thread, &scripts[t]);
	for (t = 0; t < nthreads; t++)
		if (!scripts[t].skip)
			pthread_join(scripts[t].th, NULL);
	for (t = 0; t < nthreads; t++)
		if (!scripts[t].skip && orc_defer_pending(t))
			usim_fail("defer-lost", "thread %d unregistered but %d of its deferred calls never ran", t, orc_defer_pending(t));
	if (orc_defer_total())
		usim_probe("defer.run_with_calls");
}
