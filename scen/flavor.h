/* flavor.h — one table of the whole per-flavor RCU API, filled by flavor_glue.c
 * (compiled once per flavor against /repo's public headers). */
#ifndef SCEN_FLAVOR_H
#define SCEN_FLAVOR_H
#include <stdbool.h>
#include <urcu/urcu-poll.h>
#include <urcu/flavor.h>

struct rcu_head;
struct call_rcu_data;

enum { FLV_MEMB = 0, FLV_MB = 1, FLV_QSBR = 2, FLV_BP = 3, FLV_N = 4 };

struct flavor_ops {
	const char *name;
	int id;
	int is_qsbr, is_bp;
	const struct rcu_flavor_struct *flavor;
	void (*read_lock)(void);
	void (*read_unlock)(void);
	int (*read_ongoing)(void);
	void (*quiescent_state)(void);
	void (*thread_offline)(void);
	void (*thread_online)(void);
	void (*register_thread)(void);
	void (*unregister_thread)(void);
	void (*synchronize_rcu)(void);
	void (*call_rcu)(struct rcu_head *head, void (*func)(struct rcu_head *head));
	void (*barrier)(void);
	void (*defer_rcu)(void (*fct)(void *p), void *p);
	int (*defer_register_thread)(void);
	void (*defer_unregister_thread)(void);
	void (*defer_barrier)(void);
	void (*defer_barrier_thread)(void);
	struct urcu_gp_poll_state (*start_poll)(void);
	bool (*poll_state)(struct urcu_gp_poll_state state);
	struct call_rcu_data *(*create_call_rcu_data)(unsigned long flags, int cpu_affinity);
	struct call_rcu_data *(*get_cpu_call_rcu_data)(int cpu);
	int (*set_cpu_call_rcu_data)(int cpu, struct call_rcu_data *crdp);
	struct call_rcu_data *(*get_default_call_rcu_data)(void);
	struct call_rcu_data *(*get_call_rcu_data)(void);
	struct call_rcu_data *(*get_thread_call_rcu_data)(void);
	void (*set_thread_call_rcu_data)(struct call_rcu_data *crdp);
	int (*create_all_cpu_call_rcu_data)(unsigned long flags);
	void (*call_rcu_data_free)(struct call_rcu_data *crdp);
	void (*free_all_cpu_call_rcu_data)(void);
	void (*call_rcu_before_fork)(void);
	void (*call_rcu_after_fork_parent)(void);
	void (*call_rcu_after_fork_child)(void);
	/* bp only */
	void (*bp_before_fork)(void);
	void (*bp_after_fork_parent)(void);
	void (*bp_after_fork_child)(void);
};

extern const struct flavor_ops flavor_memb, flavor_mb, flavor_qsbr, flavor_bp;
extern const struct flavor_ops *const flavors[FLV_N];
#endif
