#ifndef SCEN_WGL_H
#define SCEN_WGL_H
#endif
