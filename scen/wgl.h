/*
 * wgl.h — exact Wing-Gong-Lowe linearizability checker with memoisation over
 * (linearised-set bitmask, model state). Uninstrumented. Histories are small
 * (<= 30 operations); node identities are unique small integers.
 */
#ifndef SCEN_WGL_H
#define SCEN_WGL_H
#include <stdint.h>

#define WGL_MAXOPS 48
#define WGL_MAXLIST 24

enum wgl_model { WGL_FIFO, WGL_LIFO, WGL_SET };

enum wgl_kind {
	/* FIFO (two queues, index 0/1) */
	WQ_ENQ,		/* a=queue, b=id, r=was_non_empty (or -1: unchecked) */
	WQ_DEQ,		/* a=queue, r=id or -1 (empty) */
	WQ_EMPTY,	/* a=queue, r=0/1 */
	WQ_SPLICE_DRAIN,/* a=src queue, b=temp slot */
	WQ_SPLICE_APPEND,/* a=dst queue, b=temp slot, r=0 src empty, 1 dest was empty, 2 dest non-empty; after=index of the drain op */
	WQ_ITER,	/* a=queue, list=content */
	/* LIFO (one stack) */
	WS_PUSH,	/* b=id, r=was_non_empty (or -1 unchecked) */
	WS_POP,		/* r=id or -1 ; r2 = 1 if reported LAST (stack became empty), 0 not, -1 unchecked */
	WS_POP_ALL,	/* list=content top first */
	WS_EMPTY,	/* r=0/1 */
	/* SET of node ids for one hash-table key (multiset per key) */
	WH_ADD,		/* b=id */
	WH_ADD_UNIQUE,	/* b=id, r=id returned (b if inserted, else an existing one) */
	WH_ADD_REPLACE,	/* b=id, r=replaced id or -1 */
	WH_REPLACE,	/* a=old id, b=new id, r=0 ok / 1 failed */
	WH_DEL,		/* b=id, r=0 ok / 1 failed */
	WH_LOOKUP,	/* r=id found or -1 */
	WH_WALK,	/* list=all duplicates returned by lookup+next_duplicate: must equal the set at one instant */
	WH_ABSENT_OK,	/* no-op */
};

struct wgl_op {
	uint64_t inv, ret;	/* global sequence numbers */
	int kind;
	int a, b;
	long r, r2;
	int after;		/* -1, or index of an op that must be linearised before this one */
	int thread;
	int nlist;
	uint8_t list[WGL_MAXLIST];
};

struct wgl_hist {
	int model;
	int n;
	struct wgl_op ops[WGL_MAXOPS];
	uint64_t states_explored;
};

void wgl_init(struct wgl_hist *h, int model);
/* begin an operation: returns its index; inv is taken now */
int wgl_begin(struct wgl_hist *h, int kind, int a, int b);
/* end an operation: ret is taken now */
void wgl_end(struct wgl_hist *h, int idx, long r);
void wgl_end2(struct wgl_hist *h, int idx, long r, long r2);
void wgl_list_add(struct wgl_hist *h, int idx, int id);
void wgl_set_after(struct wgl_hist *h, int idx, int after);
/* drop an op that turned out to be a no-op (e.g. WOULDBLOCK) */
void wgl_cancel(struct wgl_hist *h, int idx);
/* initial content for the model (ids present before the history starts) */
void wgl_initial_add(struct wgl_hist *h, int a, int id);
/* 1 = linearizable, 0 = not. On 0, `why` (if non-NULL) gets a description. */
int wgl_check(struct wgl_hist *h, char *why, int whylen);
/* true if at least two operations of different threads overlap */
int wgl_has_overlap(const struct wgl_hist *h);
int wgl_full(const struct wgl_hist *h);
#endif
