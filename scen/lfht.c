/*
 * lfht.c — hash-table scenarios:
 *   lfht_lin    (C05) linearizability per key + resident nodes never missed
 *   lfht_unique (C06) unique adds / atomic replace
 *   lfht_owner  (C07) single owner, unreachable after a grace period
 *   lfht_resize (C09) resize termination, content preservation, bucket bounds
 * (lfht_seq (C08) lives in lfht_seq.c and shares nothing but the node type.)
 */
#include "common.h"
#include "wgl.h"
#include <errno.h>
#include <unistd.h>
#include <urcu/rculfhash.h>
#include <urcu/call-rcu.h>
#include "rculfhash-internal.h"	/* /repo/src: only to read the private bucket count (C09 bound) */

enum { M_LIN, M_UNIQUE, M_OWNER, M_RESIZE };
enum {
	K_ADD, K_ADD_UNIQUE, K_ADD_REPLACE, K_REPLACE, K_DEL, K_LOOKUP, K_WALK, K_TRAVERSE,
	K_RESIZE, K_FILL, K_DRAIN, K_NK
};
static const char *const opname[] = {
	"add", "add_unique", "add_replace", "replace", "del", "lookup", "walk", "traverse", "resize", "fill", "drain"
};

#define NKEYS 5		/* 0..2 active, 3..4 resident (lookups only) */
#define FILL_BASE 52	/* node ids 52..63: filler nodes, one private key each (drive the node-count based lazy resize) */
#define FILL_MAX 12
#define HMAGIC 0x68a5400dbeefL

struct hnode {
	struct cds_lfht_node n;
	struct rcu_head rh;
	long magic;
	int id, key;
};

static const unsigned long hash_pool[] = {
	0UL, ~0UL, 1UL << 63, 1UL, 5UL, 9UL, 17UL, 2UL, 3UL, 0x8000000000000001UL, 33UL, 0xffffUL, 6UL,
};

static struct cds_lfht *ht;
static const struct flavor_ops *F;
static struct wgl_hist HK[NKEYS];
static unsigned long key_hash[NKEYS];
static int key_val[NKEYS];
static int key_unique[NKEYS];
static unsigned unique_mask;
static struct script scripts[MAX_SCRIPT_THREADS];
static int nthreads, mode, next_id, nresident;
static unsigned long max_buckets, init_size, min_alloc;
static int ht_flags;

/* custom allocator with accounting (C09: bucket memory bounds, alloc-before-use) */
static long alloc_live_bytes, alloc_peak_bytes, alloc_calls;
static int use_custom_alloc;
static int alloc_state_cookie = 0x5ca1e;

/*
 * The caller's allocator is not the C library's: its blocks carry a 16-byte header, so a block that
 * the library releases with free() instead of alloc->free() (or the other way round) is an
 * invalid free, and what it took from the allocator it must give back to it (balance at the end).
 */
#define CA_HDR 16
#define CA_MAGIC 0xa110c8edUL
static void *aligned_blocks[16];

static void *ca_wrap(void *raw, size_t size)
{
	if (!raw)
		return NULL;
	((unsigned long *) raw)[0] = CA_MAGIC;
	((unsigned long *) raw)[1] = size;
	__atomic_add_fetch(&alloc_live_bytes, (long) size, __ATOMIC_RELAXED);
	return (char *) raw + CA_HDR;
}

static void *ca_malloc(void *state, size_t size)
{
	if (state != &alloc_state_cookie)
		usim_fail("lfht-alloc", "custom allocator called with a wrong state pointer");
	if (usim_fault("lfht_work_alloc_fail", 1, 3))
		return NULL;
	alloc_calls++;
	return ca_wrap(malloc(size + CA_HDR), size);
}

static void *ca_calloc(void *state, size_t n, size_t size)
{
	void *p;
	if (state != &alloc_state_cookie)
		usim_fail("lfht-alloc", "custom allocator called with a wrong state pointer");
	alloc_calls++;
	if (size == sizeof(struct cds_lfht_node) && n > (max_buckets > min_alloc ? max_buckets : min_alloc))
		usim_fail("lfht-bucket-bound", "bucket allocation of %zu buckets exceeds max_nr_buckets=%lu", n, max_buckets);
	p = calloc(1, n * size + CA_HDR);
	usim_mem_tag(p, "lfht-table-mem");
	return ca_wrap(p, n * size);
}

static void ca_free(void *state, void *ptr);

static void *ca_realloc(void *state, void *ptr, size_t size)
{
	void *n = ca_malloc(state, size);
	if (n && ptr) {
		size_t old = ((unsigned long *) ((char *) ptr - CA_HDR))[1];
		memcpy(n, ptr, old < size ? old : size);
		ca_free(state, ptr);
	}
	return n;
}

static void *ca_aligned_alloc(void *state, size_t align, size_t size)
{
	void *p = NULL;
	int i;
	(void) state;
	if (posix_memalign(&p, align, size))
		return NULL;
	for (i = 0; i < 16; i++)
		if (!__atomic_load_n(&aligned_blocks[i], __ATOMIC_RELAXED)) {
			__atomic_store_n(&aligned_blocks[i], p, __ATOMIC_RELAXED);
			break;
		}
	return p;
}

static void ca_free(void *state, void *ptr)
{
	unsigned long *raw;
	int i;
	if (state != &alloc_state_cookie)
		usim_fail("lfht-alloc", "custom allocator called with a wrong state pointer");
	if (!ptr)
		return;
	for (i = 0; i < 16; i++)
		if (__atomic_load_n(&aligned_blocks[i], __ATOMIC_RELAXED) == ptr) {
			__atomic_store_n(&aligned_blocks[i], NULL, __ATOMIC_RELAXED);
			free(ptr);
			return;
		}
	raw = (unsigned long *) ((char *) ptr - CA_HDR);
	if (raw[0] != CA_MAGIC)
		usim_fail("lfht-alloc", "alloc->free() called with %p, which this allocator never handed out", ptr);
	raw[0] = 0;
	__atomic_sub_fetch(&alloc_live_bytes, (long) raw[1], __ATOMIC_RELAXED);
	free(raw);
}

static const struct cds_lfht_alloc custom_alloc = {
	.malloc = ca_malloc, .calloc = ca_calloc, .realloc = ca_realloc,
	.aligned_alloc = ca_aligned_alloc, .free = ca_free, .state = &alloc_state_cookie,
};

static int match_fn(struct cds_lfht_node *node, const void *key)
{
	struct hnode *h = caa_container_of(node, struct hnode, n);
	return h->key == *(const int *) key;
}

static struct hnode *mknode(int id, int k)
{
	struct hnode *h = malloc(sizeof(*h));
	usim_mem_tag(h, "lfht-node");
	cds_lfht_node_init(&h->n);
	h->magic = HMAGIC;
	h->id = id;
	h->key = key_val[k];
	hor_node(id, k);	/* the oracle indexes keys 0..NKEYS-1 */
	return h;
}

static struct hnode *to_hnode(struct cds_lfht_node *n, const char *where)
{
	struct hnode *h;
	if (!n)
		return NULL;
	usim_node_check(n, sizeof(*n), where);
	h = caa_container_of(n, struct hnode, n);
	if (h->magic != HMAGIC)
		usim_fail("lfht-bad-node", "%s returned a pointer that is not a user node", where);
	return h;
}

/*
 * C09: "the number of buckets always stays between 1 and max_nr_buckets". Read
 * straight from the table (any value ever stored must be within bounds, so a
 * stale value under TSO is as good as a fresh one); uninstrumented: adds no
 * yield point.
 */
HARNESS_BOOKKEEPING static void size_invariant(const char *where)
{
	unsigned long size = ht->size;
	if (size < 1 || size > max_buckets)
		usim_fail("lfht-bucket-bound", "%s: the table has %lu buckets, outside [1, max_nr_buckets=%lu]", where, size, max_buckets);
}

static unsigned long fill_hash(int j)
{
	return (unsigned long) (j + 1) * 0x9e3779b97f4a7c15UL;
}

static int fill_keyval[FILL_MAX];

/* bulk insertion of nodes with private, well-spread keys */
static void do_fill(int first, int n)
{
	int j;
	for (j = first; j < first + n && j < FILL_MAX; j++) {
		struct hnode *h = malloc(sizeof(*h));
		uint64_t inv;
		usim_mem_tag(h, "lfht-filler-node");
		cds_lfht_node_init(&h->n);
		h->magic = HMAGIC;
		h->id = FILL_BASE + j;
		h->key = fill_keyval[j] = 200 + j;
		hor_node(h->id, NKEYS + j);
		F->read_lock();
		inv = usim_seq();
		cds_lfht_add(ht, fill_hash(j), &h->n);
		hor_added(h->id, inv);
		F->read_unlock();
		size_invariant("after an add");
	}
}

static void free_node_cb(struct rcu_head *rh)
{
	free(caa_container_of(rh, struct hnode, rh));
}

static void retire(struct hnode *h);

/*
 * Removal and reclamation of filler nodes, one at a time (a grace period or a call_rcu each):
 * whoever still walks the chains meanwhile, a resize included, must be a reader the grace
 * period waits for.
 */
static void do_drain(int first, int n)
{
	int j;
	for (j = first; j < first + n && j < FILL_MAX; j++) {
		struct cds_lfht_iter it;
		struct hnode *h;
		uint64_t inv;
		int key = 200 + j;
		F->read_lock();
		cds_lfht_lookup(ht, fill_hash(j), match_fn, &key, &it);
		h = to_hnode(cds_lfht_iter_get_node(&it), "cds_lfht_lookup");
		if (h) {
			inv = usim_seq();
			if (cds_lfht_del(ht, &h->n) == 0) {
				hor_removed(h->id, inv);
				usim_probe("lfht.filler_node_removed_and_reclaimed");
			} else
				h = NULL;
		}
		F->read_unlock();
		retire(h);
	}
}

/* the owner of a removed node reclaims it after a grace period; call OUTSIDE the read-side section */
static void retire(struct hnode *h)
{
	if (!h)
		return;
	if (h->id & 1) {
		F->call_rcu(&h->rh, free_node_cb);
	} else {
		F->synchronize_rcu();
		free(h);
	}
}

static void do_resize(unsigned long size)
{
	usim_trace("resize to %lu", size);
	usim_allow_create_fail(1);	/* only the partitioned-resize helper handles EAGAIN */
	cds_lfht_resize(ht, size);
	usim_allow_create_fail(0);
	usim_probe("lfht.resize_returned");
}

/* planned suspension inside an operation: ordinal / length, fixed at generation time */
static unsigned short stall_ord[MAX_SCRIPT_THREADS][MAX_OPS];
static unsigned short stall_len[MAX_SCRIPT_THREADS][MAX_OPS];
static int final_stall_ord, final_stall_len, final_grow, destroy_first;
static int prefill;
static unsigned long pre_resize;

static void do_op(int me, struct op *op)
{
	int k = op->a, i, j;
	struct wgl_hist *H = &HK[k];
	struct cds_lfht_iter it;
	struct hnode *mine = NULL, *got, *victim = NULL;
	struct cds_lfht_node *r;
	int ret;
	(void) me;

	if (op->kind == K_RESIZE) {
		do_resize((unsigned long) op->v);
		size_invariant("after cds_lfht_resize()");
		return;
	}
	if (op->kind == K_FILL) {
		do_fill(op->b, (int) op->v);
		return;
	}
	if (op->kind == K_DRAIN) {
		do_drain(op->b, (int) op->v);
		return;
	}
	if (H->n + 3 > WGL_MAXOPS - 2)
		return;
	if (op->kind <= K_REPLACE)
		mine = mknode((int) op->v, k);
	F->read_lock();
	switch (op->kind) {
	case K_ADD:
		i = wgl_begin(H, WH_ADD, 0, mine->id);
		cds_lfht_add(ht, key_hash[k], &mine->n);
		wgl_end(H, i, 0);
		hor_added(mine->id, H->ops[i].inv);
		break;
	case K_ADD_UNIQUE:
		i = wgl_begin(H, WH_ADD_UNIQUE, 0, mine->id);
		r = cds_lfht_add_unique(ht, key_hash[k], match_fn, &key_val[k], &mine->n);
		got = to_hnode(r, "cds_lfht_add_unique");
		if (got->key != key_val[k])
			usim_fail("lfht-wrong-key", "add_unique for key %d returned node %d of key %d", key_val[k], got->id, got->key);
		wgl_end(H, i, got->id);
		if (got == mine)
			hor_added(mine->id, H->ops[i].inv);
		else
			victim = NULL;
		F->read_unlock();
		if (got != mine)
			free(mine);	/* never inserted: may be freed at once */
		return;
	case K_ADD_REPLACE:
		i = wgl_begin(H, WH_ADD_REPLACE, 0, mine->id);
		r = cds_lfht_add_replace(ht, key_hash[k], match_fn, &key_val[k], &mine->n);
		got = to_hnode(r, "cds_lfht_add_replace");
		if (got && got->key != key_val[k])
			usim_fail("lfht-wrong-key", "add_replace for key %d returned node %d of key %d", key_val[k], got->id, got->key);
		wgl_end(H, i, got ? got->id : -1);
		hor_added(mine->id, H->ops[i].inv);
		if (got) {
			hor_removed(got->id, H->ops[i].inv);
			victim = got;
		}
		break;
	case K_REPLACE:
		j = wgl_begin(H, WH_LOOKUP, 0, 0);
		cds_lfht_lookup(ht, key_hash[k], match_fn, &key_val[k], &it);
		got = to_hnode(cds_lfht_iter_get_node(&it), "cds_lfht_lookup");
		wgl_end(H, j, got ? got->id : -1);
		if (!got) {
			F->read_unlock();
			free(mine);
			return;
		}
		for (ret = 0; ret < op->b; ret++)
			usim_pause();
		i = wgl_begin(H, WH_REPLACE, got->id, mine->id);
		ret = cds_lfht_replace(ht, &it, key_hash[k], match_fn, &key_val[k], &mine->n);
		wgl_end(H, i, ret == 0 ? 0 : 1);
		if (ret == 0) {
			hor_added(mine->id, H->ops[i].inv);
			hor_removed(got->id, H->ops[i].inv);
			victim = got;
		} else {
			if (ret != -ENOENT)
				usim_fail("lfht-api", "cds_lfht_replace returned %d", ret);
			F->read_unlock();
			free(mine);
			return;
		}
		break;
	case K_DEL:
		j = wgl_begin(H, WH_LOOKUP, 0, 0);
		cds_lfht_lookup(ht, key_hash[k], match_fn, &key_val[k], &it);
		got = to_hnode(cds_lfht_iter_get_node(&it), "cds_lfht_lookup");
		wgl_end(H, j, got ? got->id : -1);
		if (!got)
			break;
		for (ret = 0; ret < op->b; ret++)
			usim_pause();
		i = wgl_begin(H, WH_DEL, 0, got->id);
		ret = cds_lfht_del(ht, &got->n);
		wgl_end(H, i, ret == 0 ? 0 : 1);
		if (ret == 0) {
			hor_removed(got->id, H->ops[i].inv);
			victim = got;
			if (!cds_lfht_is_node_deleted(&got->n))
				usim_fail("lfht-api", "cds_lfht_is_node_deleted() is false right after a successful cds_lfht_del()");
		}
		break;
	case K_LOOKUP:
		j = wgl_begin(H, WH_LOOKUP, 0, 0);
		cds_lfht_lookup(ht, key_hash[k], match_fn, &key_val[k], &it);
		got = to_hnode(cds_lfht_iter_get_node(&it), "cds_lfht_lookup");
		if (got && got->key != key_val[k])
			usim_fail("lfht-wrong-key", "lookup of key %d returned node %d of key %d", key_val[k], got->id, got->key);
		wgl_end(H, j, got ? got->id : -1);
		if (!got) {
			/* an "absent" answer is an empty walk for the presence oracle */
			int t = hor_trav_begin(k);
			hor_trav_set_interval(t, H->ops[j].inv, H->ops[j].ret);
		}
		if (k >= 3 && !got)
			usim_fail("lfht-resident-missed", "lookup of resident key %d (hash %#lx), which is never removed, returned NULL", key_val[k], key_hash[k]);
		break;
	case K_WALK: {
		int t = hor_trav_begin(k);
		j = wgl_begin(H, WH_LOOKUP, 0, 0);
		cds_lfht_lookup(ht, key_hash[k], match_fn, &key_val[k], &it);
		got = to_hnode(cds_lfht_iter_get_node(&it), "cds_lfht_lookup");
		wgl_end(H, j, got ? got->id : -1);
		while (got) {
			if (got->key != key_val[k])
				usim_fail("lfht-wrong-key", "duplicate walk of key %d returned node %d of key %d", key_val[k], got->id, got->key);
			hor_trav_visit(t, got->id);
			cds_lfht_next_duplicate(ht, match_fn, &key_val[k], &it);
			got = to_hnode(cds_lfht_iter_get_node(&it), "cds_lfht_next_duplicate");
		}
		hor_trav_end(t);
		break;
	}
	case K_TRAVERSE: {
		int t = hor_trav_begin(-1);
		struct cds_lfht_node *n;
		cds_lfht_for_each(ht, &it, n) {
			got = to_hnode(n, "cds_lfht_first/next");
			hor_trav_visit(t, got->id);
		}
		hor_trav_end(t);
		break;
	}
	}
	F->read_unlock();
	retire(victim);
}

static void *h_thread(void *arg)
{
	struct script *s = arg;
	int me = (int) (s - scripts), i;

	usim_thread_name("script%d", me);
	if (!F->is_bp)
		F->register_thread();
	if (F->is_qsbr)
		F->thread_offline();
	for (i = 0; i < s->nops; i++) {
		struct op *op = &s->ops[i];
		if (op->skip)
			continue;
		if (op->kind == K_RESIZE)
			usim_set_op("%d.%d cds_lfht_resize(%lu)", me, i, (unsigned long) op->v);
		else if (op->kind == K_FILL)
			usim_set_op("%d.%d fill %ld nodes", me, i, op->v);
		else if (op->kind == K_DRAIN)
			usim_set_op("%d.%d remove and reclaim filler nodes %d..%ld", me, i, op->b, op->b + op->v - 1);
		else
			usim_set_op("%d.%d %s key%d", me, i, opname[op->kind], op->a);
		/* qsbr: a registered thread is online whenever it uses the table */
		/* resize is issued either way: the library must cope with an online or offline caller */
		if (F->is_qsbr && !(op->kind == K_RESIZE && (op->b & 1)))
			F->thread_online();
		if (stall_ord[me][i])
			usim_stall_plan(stall_ord[me][i], stall_len[me][i]);
		do_op(me, op);
		usim_stall_cancel();
		size_invariant("after an operation");
		if (F->is_qsbr && !(op->kind == K_RESIZE && (op->b & 1)))
			F->thread_offline();
		if (op->kind == K_FILL && op->c) {
			/* leave the resize worker time to act on what the node counters requested */
			usleep(30000 * op->c);
			size_invariant("some time after a bulk insertion (lazy resize)");
		}
	}
	usim_quiet_vote();
	if (!F->is_bp)
		F->unregister_thread();
	return NULL;
}

static unsigned long pick_resize_size(void)
{
	static const unsigned long pow2[] = { 1, 2, 4, 8, 16, 32 };
	uint32_t r = rnd(100);
	if (max_buckets >= 512 && r < 20)
		return 128UL << rnd(3);
	if (mode != M_RESIZE || r < 55)
		return pow2[rnd(6)];
	if (r < 62) return 0;
	if (r < 72) return 3 + 2 * rnd(3);		/* 3, 5, 7: not powers of two */
	if (r < 80) return 6 + 6 * rnd(2);		/* 6, 12 */
	if (r < 88) return max_buckets + 1 + rnd(100);	/* above max */
	if (r < 94) return ~0UL;
	return (1UL << 40) + 1;
}

static void gen(void)
{
	int t, i, k, nkeys_active = 1 + rnd(3);
	static const unsigned long inits[] = { 1, 2, 4 }, mins[] = { 1, 2 }, maxs[] = { 4, 8, 16, 64 };
	int mmsel, total_per_key[NKEYS] = { 0 }, nfill = 0, focus;
	const struct cds_lfht_mm_type *mm;

	F = choose_flavor(0xf);
	choose_rcu_knobs(0);
	/*
	 * Reclaim focus (a quarter of the resize runs): a grown table full of filler nodes, one thread
	 * that shrinks and grows it, the others removing and reclaiming the fillers one grace period
	 * at a time. Whatever walks the chains on behalf of the resize must be covered by a read-side
	 * section of the table's flavor for as long as it stands on a node.
	 */
	focus = mode == M_RESIZE && (int) usim_param("reclaim_focus", rnd(4) == 0);
	init_size = (unsigned long) usim_param("ht.init", inits[rnd(3)]);
	min_alloc = (unsigned long) usim_param("ht.min_alloc", mins[rnd(2)]);
	mmsel = (int) usim_param("ht.mm", rnd(4));
	max_buckets = (unsigned long) usim_param("ht.max", (mmsel == 2 && rnd(3) == 0) ? 512 : maxs[rnd(4)]);
	if (focus && max_buckets < 8)
		max_buckets = 16;
	ht_flags = (int) usim_param("ht.flags", rnd(4));
	use_custom_alloc = (int) usim_param("ht.custom_alloc", rnd(2));
	mm = mmsel == 0 ? &cds_lfht_mm_order : mmsel == 1 ? &cds_lfht_mm_chunk :
	     mmsel == 2 ? &cds_lfht_mm_mmap : NULL;
	usim_set_ncpus((int) usim_param("ncpus", pick(ncpu_choices, 8)));
	usim_set_knob(URCU_VERIF_KNOB_MIN_PARTITION_ORDER, (unsigned long) usim_param("knob.min_partition_order", rnd(2) == 0 ? 12 : rnd(2)));
	usim_set_knob(URCU_VERIF_KNOB_COUNT_COMMIT_ORDER, (unsigned long) usim_param("knob.count_commit_order", 1 + rnd(2)));
	usim_fault_enable("getcpu_migrate", rnd(2));
	usim_fault_enable("getcpu_fail", rnd(4) == 0);
	usim_fault_enable("pthread_create_eagain", rnd(2));
	usim_lib_threads_create_fail(1);	/* the resize worker's partition helpers (lazy resizes) */
	usim_fault_enable("lfht_work_alloc_fail", mode == M_RESIZE && use_custom_alloc && rnd(2));
	usim_describe("{\"flavor\":\"%s\",\"table\":{\"init\":%lu,\"min_alloc\":%lu,\"max\":%lu,\"flags\":%d,\"mm\":\"%s\",\"custom_alloc\":%d},",
		F->name, init_size, min_alloc, max_buckets, ht_flags,
		mmsel == 0 ? "order" : mmsel == 1 ? "chunk" : mmsel == 2 ? "mmap" : "default", use_custom_alloc);
	if (use_custom_alloc)
		ht = _cds_lfht_new_with_alloc(init_size, min_alloc, max_buckets, ht_flags, mm, F->flavor, &custom_alloc, NULL);
	else
		ht = _cds_lfht_new(init_size, min_alloc, max_buckets, ht_flags, mm, F->flavor, NULL);
	if (!ht)
		usim_fail("lfht-api", "cds_lfht_new refused valid power-of-two parameters");

	usim_describe("\"keys\":[");
	for (k = 0; k < NKEYS; k++) {
		wgl_init(&HK[k], WGL_SET);
		key_val[k] = 100 + k;
		key_hash[k] = hash_pool[rnd(sizeof(hash_pool) / sizeof(hash_pool[0]))];
		if (k > 0 && rnd(3) == 0)
			key_hash[k] = key_hash[rnd(k)];	/* different keys, same hash */
		key_unique[k] = mode == M_LIN ? (int) rnd(2) : 1;
		if (k >= 3)
			key_unique[k] = 1;
		if (key_unique[k])
			unique_mask |= 1u << k;
		usim_describe("%s{\"hash\":\"%#lx\",\"unique\":%d}", k ? "," : "", key_hash[k], key_unique[k]);
	}
	usim_describe("],");
	nthreads = (int) usim_param("nthreads", 2 + rnd(usim_tier() ? 4 : 3));
	/* resize runs: half start from a table that already holds filler nodes (and may have been grown) */
	prefill = (int) usim_param("prefill", focus ? 6 + (int) rnd(FILL_MAX - 5) :
				   mode == M_RESIZE && rnd(2) ? 2 + (int) rnd(FILL_MAX - 1) : 0);
	pre_resize = (unsigned long) usim_param("pre_resize", focus ? 8UL << rnd(2) : prefill && rnd(2) ? 8UL << rnd(3) : 0);
	if (pre_resize > max_buckets)
		pre_resize = max_buckets;
	nfill = prefill;
	nresident = (int) usim_param("nresident", rnd(3));
	next_id = 0;
	usim_describe("\"resident\":%d,\"prefill\":%d,\"pre_resize\":%lu,\"threads\":[", nresident, prefill, pre_resize);
	for (t = 0; t < nthreads; t++) {
		struct script *s = &scripts[t];
		int resizer = (mode == M_RESIZE) ? (t < (F->is_qsbr ? 1 : 2) ? (int) rnd(2) : 0) : (t == nthreads - 1 && rnd(3) == 0);
		if (focus)
			resizer = t == 0;
		s->nops = 1 + rnd(usim_tier() ? 7 : 5);
		usim_describe("%s[", t ? "," : "");
		for (i = 0; i < s->nops; i++) {
			struct op *op = &s->ops[i];
			uint32_t r = rnd(100);
			k = rnd(nkeys_active);
			op->a = k;
			op->b = rnd(3);
			if (resizer && (r < 70 || focus)) {
				op->kind = K_RESIZE;
				op->v = (long) pick_resize_size();
				if (focus && rnd(2))
					op->v = (i & 1) ? 16 : 1 + (long) rnd(2);
			} else if (nfill < FILL_MAX && rnd(100) < (mode == M_RESIZE ? 14u : 5u)) {
				op->kind = K_FILL;
				op->c = rnd(3);
				op->b = nfill;
				op->v = 2 + rnd(FILL_MAX - 1);
				if (nfill + op->v > FILL_MAX)
					op->v = FILL_MAX - nfill;
				nfill += (int) op->v;
			} else if (nfill && mode == M_RESIZE && rnd(100) < (focus ? 60u : prefill ? 30u : 10u)) {
				op->kind = K_DRAIN;
				op->b = rnd(nfill);
				op->v = 1 + rnd(4);
			} else if (r < 8 && nresident) {
				op->kind = rnd(2) ? K_LOOKUP : K_WALK;
				op->a = 3 + rnd(nresident);
			} else if (mode == M_OWNER) {
				if (r < 30) op->kind = K_DEL;
				else if (r < 55) op->kind = K_REPLACE;
				else if (r < 72) op->kind = K_ADD_REPLACE;
				else if (r < 84) op->kind = K_ADD_UNIQUE;
				else if (r < 92) op->kind = K_LOOKUP;
				else op->kind = K_TRAVERSE;
			} else if (key_unique[k]) {
				if (r < 28) op->kind = K_ADD_UNIQUE;
				else if (r < 44) op->kind = K_ADD_REPLACE;
				else if (r < 56) op->kind = K_REPLACE;
				else if (r < 70) op->kind = K_DEL;
				else if (r < 82) op->kind = K_LOOKUP;
				else if (r < 91) op->kind = K_WALK;
				else op->kind = K_TRAVERSE;
			} else {
				if (r < 24) op->kind = K_ADD;
				else if (r < 34) op->kind = K_ADD_UNIQUE;
				else if (r < 42) op->kind = K_ADD_REPLACE;
				else if (r < 50) op->kind = K_REPLACE;
				else if (r < 66) op->kind = K_DEL;
				else if (r < 78) op->kind = K_LOOKUP;
				else if (r < 90) op->kind = K_WALK;
				else op->kind = K_TRAVERSE;
			}
			if (op->kind != K_RESIZE && op->kind != K_FILL && op->kind != K_DRAIN && op->kind != K_TRAVERSE && total_per_key[op->a] >= 12)
				op->kind = K_TRAVERSE;
			if (op->kind <= K_REPLACE) {
				if (next_id >= 50)
					op->kind = K_LOOKUP;
				else
					op->v = next_id++;
			}
			if (op->kind != K_RESIZE && op->kind != K_FILL && op->kind != K_DRAIN && op->kind != K_TRAVERSE)
				total_per_key[op->a]++;
			/* one operation in five is suspended for a while at one of its first shared-memory accesses */
			stall_ord[t][i] = rnd(5) == 0 ? 1 + rnd(14) : 0;
			stall_len[t][i] = (unsigned short) (100 + rnd(3000));
			if (op->kind == K_RESIZE && rnd(2))
				stall_ord[t][i] = (unsigned short) (1 + rnd(700));	/* somewhere deep inside the resize */
			if (op->kind == K_FILL && rnd(2))
				stall_ord[t][i] = (unsigned short) (1 + rnd(60 * (unsigned) op->v));	/* inside any of its insertions (lazy resize launch) */
			if (op->kind == K_RESIZE)
				usim_describe("%s\"resize(%ld)\"", i ? "," : "", op->v);
			else if (op->kind == K_FILL)
				usim_describe("%s\"fill(%ld)\"", i ? "," : "", op->v);
			else if (op->kind == K_DRAIN)
				usim_describe("%s\"drain(%d,%ld)\"", i ? "," : "", op->b, op->v);
			else if (op->kind == K_TRAVERSE)
				usim_describe("%s\"traverse\"", i ? "," : "");
			else
				usim_describe("%s\"%s(k%d)\"", i ? "," : "", opname[op->kind], op->a);
		}
		usim_describe("]");
	}
	usim_describe("]}");
	final_stall_ord = (int) usim_param("final_stall_ord", rnd(5) ? 1 + (int) rnd(rnd(2) ? 9 : 60) : 0);
	final_stall_len = 300 + (int) rnd(4000);
	final_grow = (int) usim_param("final_grow", rnd(2));
	destroy_first = (int) usim_param("destroy_first", rnd(2));
	script_apply_skips(scripts, nthreads);
}

static void run_common(int m)
{
	int t, k, i, voters = 0, present, trav;
	char why[3000];
	struct cds_lfht_iter it;
	struct cds_lfht_node *n;
	long before, after;
	unsigned long count;
	struct hnode *all[64];
	int nall = 0, ret;

	mode = m;
	no_faults();
	gen();
	if (!F->is_bp)
		F->register_thread();
	/* resident nodes and (owner mode) initial victims, inserted before any concurrency */
	F->read_lock();
	for (k = 0; k < nresident; k++) {
		struct hnode *h = mknode(50 + k, 3 + k);
		cds_lfht_add(ht, key_hash[3 + k], &h->n);
	}
	F->read_unlock();
	/* residents are checked by the presence oracle and by direct lookups (never absent) */
	for (k = 0; k < nresident; k++)
		hor_added(50 + k, 1);
	if (prefill)
		do_fill(0, prefill);
	if (pre_resize) {
		cds_lfht_resize(ht, pre_resize);
		size_invariant("after the initial cds_lfht_resize()");
	}
	if (F->is_qsbr)
		F->thread_offline();
	for (t = 0; t < nthreads; t++)
		if (!scripts[t].skip)
			voters++;
	usim_quiet_expect(voters + 1);	/* the main thread votes after its own final operations (checks, destroy) */
	for (t = 0; t < nthreads; t++)
		if (!scripts[t].skip)
			pthread_create(&scripts[t].th, NULL, h_thread, &scripts[t]);
	for (t = 0; t < nthreads; t++)
		if (!scripts[t].skip)
			pthread_join(scripts[t].th, NULL);

	/* quiescent: the table must hold exactly the nodes the history says */
	if (F->is_qsbr)
		F->thread_online();
	F->read_lock();
	trav = hor_trav_begin(-1);
	cds_lfht_for_each(ht, &it, n) {
		struct hnode *h = to_hnode(n, "cds_lfht_first/next");
		hor_trav_visit(trav, h->id);
		if (nall < 64)
			all[nall++] = h;
	}
	hor_trav_end(trav);
	size_invariant("at quiescence");
	present = hor_present_count();
	if (nall != present)
		usim_fail("lfht-conservation", "at quiescence a full traversal finds %d nodes but %d were added and not removed", nall, present);
	cds_lfht_count_nodes(ht, &before, &count, &after);
	if ((int) count != present)
		usim_fail("lfht-conservation", "cds_lfht_count_nodes reports %lu nodes, %d are stored", count, present);
	/* final per-key content for the WGL histories */
	for (k = 0; k < 3; k++) {
		i = wgl_begin(&HK[k], WH_WALK, 0, 0);
		for (t = 0; t < nall; t++)
			if (all[t]->key == key_val[k])
				wgl_list_add(&HK[k], i, all[t]->id);
		wgl_end(&HK[k], i, 0);
	}
	F->read_unlock();
	hor_check(unique_mask);
	for (k = 0; k < 3; k++) {
		if (!wgl_check(&HK[k], why, sizeof(why))) {
			/*
			 * Classify. If the history becomes linearizable once "absent" lookup
			 * results are left unconstrained (the presence oracle above has already
			 * established that no node present for a whole lookup was missed), the
			 * only anomaly is a lookup that reported a duplicated key absent although
			 * at every instant some node of that key was stored.
			 */
			static struct wgl_hist relaxed;
			static char why2[3000];
			int variant;
			/*
			 * Keys on which plain cds_lfht_add() creates duplicates: try the two
			 * known per-node (rather than per-key) behaviours, alone and together.
			 *  1: an "absent" lookup result is left unconstrained (the presence
			 *     oracle already showed that no node stored for the whole call was missed)
			 *  2: add_unique/add_replace that inserted "because the key was absent"
			 *     is treated as a plain add (it did not notice a duplicate appended by add)
			 */
			for (variant = 1; variant <= 3 && !key_unique[k]; variant++) {
				int changed = 0;
				relaxed = HK[k];
				for (i = 0; i < relaxed.n; i++) {
					struct wgl_op *o = &relaxed.ops[i];
					if ((variant & 1) && o->kind == WH_LOOKUP && o->r < 0) {
						o->kind = WH_ABSENT_OK;
						changed++;
					}
					if ((variant & 2) && ((o->kind == WH_ADD_UNIQUE && o->r == o->b) ||
							      (o->kind == WH_ADD_REPLACE && o->r < 0))) {
						o->kind = WH_ADD;
						o->r = 0;
						changed++;
					}
				}
				if (changed && wgl_check(&relaxed, why2, sizeof(why2)))
					usim_fail(variant == 1 ? "lookup-absent-under-duplicate-churn" :
						  variant == 2 ? "unique-add-blind-to-appended-duplicate" :
						  "duplicate-key-nonatomic-lookup-and-unique-add",
						"key %d (hash %#lx) holds duplicates created by cds_lfht_add(): %s; otherwise the history is linearizable: %s",
						key_val[k], key_hash[k],
						variant == 1 ? "a lookup returned NULL although at every instant of the call some node with that key was stored" :
						variant == 2 ? "add_unique/add_replace inserted as if the key were absent although a duplicate appended by cds_lfht_add() was stored during the whole call" :
						"both a NULL lookup and a blind add_unique/add_replace", why);
			}
			usim_fail("not-linearizable", "hash table history of key %d (hash %#lx) is not linearizable against a multiset-per-key model: %s",
				key_val[k], key_hash[k], why);
		}
		if (wgl_has_overlap(&HK[k]))
			usim_mark_nontrivial();
		usim_probe_n("wgl.states", HK[k].states_explored);
	}
	/* empty the table, then destroy must succeed (with queued resizes possibly still pending) */
	ret = cds_lfht_destroy(ht, NULL);
	if (nall && ret == 0)
		usim_fail("lfht-destroy", "cds_lfht_destroy succeeded on a table holding %d nodes", nall);
	if (!nall && ret != 0)
		usim_fail("lfht-destroy", "cds_lfht_destroy failed (%d) on an empty table", ret);
	if (nall) {
		/*
		 * "A table whose resizes are still queued can be destroyed safely once empty": half of the
		 * auto-resize tables are first grown explicitly, so that emptying them requests a lazy
		 * shrink (node accounting) which is then still queued or running when destroy is called.
		 */
		if ((ht_flags & CDS_LFHT_AUTO_RESIZE) && final_grow) {
			if (F->is_qsbr)
				F->thread_offline();
			cds_lfht_resize(ht, max_buckets < 32 ? max_buckets : 32);
			if (F->is_qsbr)
				F->thread_online();
			size_invariant("after the final cds_lfht_resize()");
		}
		F->read_lock();
		for (t = 0; t < nall; t++)
			if (cds_lfht_del(ht, &all[t]->n))
				usim_fail("lfht-api", "cds_lfht_del of stored node %d failed at quiescence", all[t]->id);
		F->read_unlock();
		if (!destroy_first) {
			F->synchronize_rcu();
			for (t = 0; t < nall; t++)
				free(all[t]);
		}
		/* the emptiness walk of destroy may be suspended while queued resize work runs */
		if (ht->size != ht->resize_target)
			usim_probe(ht->resize_target < ht->size ? "lfht.destroy_while_shrink_pending" : "lfht.destroy_while_grow_pending");
		usim_trace("final cds_lfht_destroy: size %lu resize_target %lu initiated %d", ht->size, ht->resize_target, ht->resize_initiated);
		if (final_stall_ord)
			usim_stall_plan(final_stall_ord, (uint32_t) final_stall_len);
		ret = cds_lfht_destroy(ht, NULL);
		usim_stall_cancel();
		if (ret)
			usim_fail("lfht-destroy", "cds_lfht_destroy failed (%d) on an empty table", ret);
		if (destroy_first) {
			/* the removed nodes are reclaimed after the table has been destroyed */
			F->synchronize_rcu();
			for (t = 0; t < nall; t++)
				free(all[t]);
		}
	}
	if (use_custom_alloc && !(ht_flags & CDS_LFHT_AUTO_RESIZE) && __atomic_load_n(&alloc_live_bytes, __ATOMIC_RELAXED) != 0)
		usim_fail("lfht-alloc-leak", "after cds_lfht_destroy() %ld bytes obtained from the caller's allocator were not given back to it",
			__atomic_load_n(&alloc_live_bytes, __ATOMIC_RELAXED));
	if (F->is_qsbr)
		F->thread_offline();
	usim_quiet_vote();
	if (ht_flags & CDS_LFHT_AUTO_RESIZE)
		usleep(300000);	/* let the queued teardown run: any touch of freed memory is reported */
	F->barrier();
	if (!F->is_bp)
		F->unregister_thread();
}

void scen_lfht_lin(void) { run_common(M_LIN); }
void scen_lfht_unique(void) { run_common(M_UNIQUE); }
void scen_lfht_owner(void) { run_common(M_OWNER); }
void scen_lfht_resize(void) { run_common(M_RESIZE); }
