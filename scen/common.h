/* common.h — helpers shared by the (instrumented) scenarios */
#ifndef SCEN_COMMON_H
#define SCEN_COMMON_H
#ifndef _GNU_SOURCE
#define _GNU_SOURCE
#endif
#include <stdint.h>
#include <stdio.h>
#include <stdlib.h>
#include <string.h>
#include <pthread.h>
#include <urcu/verif-hooks.h>
#include "../usim/usim.h"
#include "flavor.h"
#include "oracle.h"

/*
 * Harness bookkeeping that runs right next to the window under test (e.g. just
 * after rcu_thread_online() returns): not instrumented, so that it adds no
 * yield point and -- being a store to shared harness memory -- does not push
 * the calling thread's simulated store buffer out (DESIGN.md 2.15).
 */
#define HARNESS_BOOKKEEPING __attribute__((no_sanitize("thread"), noinline))

#define MAX_SCRIPT_THREADS 8
#define MAX_OPS 24

struct op {
	int kind;
	int a, b, c;
	long v;
	int skip;
	/* planned suspension inside this operation (usim_stall_plan): ordinal of the atomic access, length in steps */
	unsigned char stall_ord;
	unsigned short stall_len;
};

struct script {
	int nops;
	struct op ops[MAX_OPS];
	int skip;		/* whole thread dropped by the minimiser */
	int role;
	pthread_t th;
	void *priv;
};

static inline uint32_t rnd(uint32_t n) { return usim_below(US_PROG, n); }
static inline int pick(const int *tab, int n) { return tab[rnd(n)]; }

/* apply the minimiser's skip masks */
static inline void script_apply_skips(struct script *s, int nthreads)
{
	int t, i;
	for (t = 0; t < nthreads; t++) {
		s[t].skip = (int) usim_paramf(0, "skipthread.%d", t);
		for (i = 0; i < s[t].nops; i++)
			s[t].ops[i].skip = (int) usim_paramf(0, "skip.%d.%d", t, i);
	}
}

/*
 * One operation in `one_in` is suspended for a while at one of its first `maxord`
 * atomic accesses (an enqueuer between its tail exchange and its link store, a
 * reader standing on a node, an updater between its two phase flips ...): the
 * intermediate states the properties quantify over. Drawn at generation time.
 */
static inline void op_stall_gen(struct op *op, int one_in, int maxord)
{
	op->stall_ord = rnd(one_in) == 0 ? (unsigned char) (1 + rnd(maxord)) : 0;
	op->stall_len = (unsigned short) (100 + rnd(3000));
}

static inline void op_stall_begin(const struct op *op)
{
	if (op->stall_ord)
		usim_stall_plan(op->stall_ord, op->stall_len);
}

static inline void op_stall_end(void)
{
	usim_stall_cancel();
}

/* index of the last op that will execute, or -1 */
static inline int script_last(const struct script *s)
{
	int i, last = -1;
	for (i = 0; i < s->nops; i++)
		if (!s->ops[i].skip)
			last = i;
	return last;
}

/*
 * A node pointer handed back by the library, validated before the harness dereferences it: garbage
 * (a marker value, a freed or foreign address) is a finding about the library, not a crash of the harness.
 */
#define RET_NODE(ptr, what) ({ __typeof__(ptr) _rn = (ptr); usim_node_check(_rn, sizeof(*_rn), what); _rn; })

/* possible-CPU counts reported to the library: powers of two and others (3, 5, 6 CPUs are ordinary machines) */
static const int ncpu_choices[8] = { 1, 2, 3, 4, 5, 6, 8, 2 };

static inline const struct flavor_ops *choose_flavor(unsigned allowed_mask)
{
	int ids[FLV_N], n = 0, i;
	int64_t f;
	for (i = 0; i < FLV_N; i++)
		if (allowed_mask & (1u << i))
			ids[n++] = i;
	f = usim_param("flavor", ids[rnd(n)]);
	return flavors[f];
}

/* swarm choice of the library tuning knobs common to all RCU scenarios */
static inline void choose_rcu_knobs(int prefer_small)
{
	static const int qs[] = { 0, 1, 2, 100 };
	static const int wa[] = { 0, 1, 3, 1000 };
	int q = qs[rnd(prefer_small ? 3 : 4)], w = wa[rnd(prefer_small ? 3 : 4)];
	q = (int) usim_param("knob.qs_active_attempts", q);
	w = (int) usim_param("knob.wait_attempts", w);
	usim_set_knob(URCU_VERIF_KNOB_QS_ACTIVE_ATTEMPTS, q);
	usim_set_knob(URCU_VERIF_KNOB_WAIT_ATTEMPTS, w);
	usim_describe("\"knobs\":{\"qs_active_attempts\":%d,\"wait_attempts\":%d},", q, w);
}

/* standard futex/poll fault menu; each kind is on in about half of the runs */
static inline void choose_futex_faults(int allow_enosys_run)
{
	extern void usim_set_futex_enosys(int on);
	usim_fault_enable("futex_wait_enosys", rnd(4) == 0);
	usim_fault_enable("futex_wait_eintr", rnd(2));
	usim_fault_enable("futex_wait_spurious", rnd(2));
	usim_fault_enable("poll_eintr", rnd(2));
	usim_fault_enable("cond_spurious", rnd(2));
	if (allow_enosys_run)
		usim_set_futex_enosys((int) usim_param("futex_enosys", rnd(5) == 0));
}

static inline void no_faults(void)
{
	usim_fault_enable("futex_wait_enosys", 0);
	usim_fault_enable("futex_wait_eintr", 0);
	usim_fault_enable("futex_wait_spurious", 0);
	usim_fault_enable("poll_eintr", 0);
	usim_fault_enable("cond_spurious", 0);
	usim_fault_enable("getcpu_fail", 0);
	usim_fault_enable("getcpu_migrate", 0);
	usim_fault_enable("pthread_create_eagain", 0);
	usim_fault_enable("mremap_inplace_fails", 0);
}

#endif
