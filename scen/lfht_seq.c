/*
 * lfht_seq.c — scenario `lfht_seq` (C08): sequential equivalence with a
 * reference multimap over the whole configuration space. The application
 * issues one operation at a time (from 1-2 threads taking turns); the only
 * concurrency is the library's own (resize worker, partition threads,
 * call_rcu helper), which the simulator interleaves.
 */
#include "common.h"
#include <errno.h>
#include <unistd.h>
#include <urcu/rculfhash.h>
#include <urcu/call-rcu.h>
#include <urcu/uatomic.h>

#define SMAXN 64
#define SKEYS 8
#define SMAGIC 0x5e9ba5e0c0deL

struct snode {
	struct cds_lfht_node n;
	struct rcu_head rh;
	long magic;
	int id, key;
};

enum { S_ADD, S_ADD_UNIQUE, S_ADD_REPLACE, S_REPLACE, S_DEL, S_LOOKUP, S_WALK, S_TRAVERSE, S_COUNT,
       S_RESIZE, S_DEL_TWICE, S_REPLACE_EINVAL, S_STALE, S_NK };
static const char *const sname[] = { "add", "add_unique", "add_replace", "replace", "del", "lookup", "walk",
	"traverse", "count", "resize", "del_twice", "replace_einval", "stale_handle" };

static struct cds_lfht *ht;
static const struct flavor_ops *F;
static unsigned long khash[SKEYS];
static int kval[SKEYS];
/* reference multimap: present[id] = key index + 1, or 0 */
static int present[SMAXN];
static struct snode *nodes[SMAXN];
static int nops;
static struct op ops[64];
static int turn, nturn_threads;

static int match_fn(struct cds_lfht_node *node, const void *key)
{
	return caa_container_of(node, struct snode, n)->key == *(const int *) key;
}

static struct snode *mk(int id, int k)
{
	struct snode *s = malloc(sizeof(*s));
	usim_mem_tag(s, "lfht-node");
	cds_lfht_node_init(&s->n);
	s->magic = SMAGIC;
	s->id = id;
	s->key = kval[k];
	nodes[id] = s;
	return s;
}

static struct snode *sn(struct cds_lfht_node *n, const char *where)
{
	struct snode *s;
	if (!n)
		return NULL;
	usim_node_check(n, sizeof(*n), where);
	s = caa_container_of(n, struct snode, n);
	if (s->magic != SMAGIC || s->id < 0 || s->id >= SMAXN || nodes[s->id] != s)
		usim_fail("lfht-seq-mismatch", "%s returned a pointer that is not a stored user node", where);
	return s;
}

static int model_count_key(int k)
{
	int i, c = 0;
	for (i = 0; i < SMAXN; i++)
		c += present[i] == k + 1;
	return c;
}

static int model_count(void)
{
	int i, c = 0;
	for (i = 0; i < SMAXN; i++)
		c += present[i] != 0;
	return c;
}

static void free_cb(struct rcu_head *rh) { free(caa_container_of(rh, struct snode, rh)); }

/* one removed (deleted or replaced-out) node is kept unreclaimed for a while: a stale handle */
static struct snode *stale;

static void retire(struct snode *s)
{
	nodes[s->id] = NULL;
	if (!stale && (s->id % 3) == 0) {
		stale = s;
		return;
	}
	if (s->id & 1) {
		F->call_rcu(&s->rh, free_cb);
	} else {
		F->synchronize_rcu();
		free(s);
	}
}

#define MISMATCH(...) usim_fail("lfht-seq-mismatch", __VA_ARGS__)

static void run_op(int idx)
{
	struct op *op = &ops[idx];
	int k = op->a;
	struct cds_lfht_iter it;
	struct cds_lfht_node *r;
	struct snode *mine = NULL, *got, *victim = NULL;
	int ret, c;

	usim_set_op("#%d %s k%d", idx, sname[op->kind], k);
	if (op->kind == S_RESIZE) {
		cds_lfht_resize(ht, (unsigned long) op->v);
		return;
	}
	if (op->kind <= S_REPLACE || op->kind == S_REPLACE_EINVAL)
		mine = mk((int) op->v, op->kind == S_REPLACE_EINVAL ? (k + 1) % SKEYS : k);
	F->read_lock();
	switch (op->kind) {
	case S_ADD:
		cds_lfht_add(ht, khash[k], &mine->n);
		present[mine->id] = k + 1;
		break;
	case S_ADD_UNIQUE:
		r = cds_lfht_add_unique(ht, khash[k], match_fn, &kval[k], &mine->n);
		got = sn(r, "add_unique");
		if (model_count_key(k)) {
			if (got == mine)
				MISMATCH("op #%d add_unique(key %d) inserted although the reference holds %d node(s) with that key", idx, k, model_count_key(k));
			if (present[got->id] != k + 1)
				MISMATCH("op #%d add_unique(key %d) returned node %d which the reference does not hold under that key", idx, k, got->id);
			nodes[mine->id] = NULL;
			F->read_unlock();
			free(mine);
			return;
		}
		if (got != mine)
			MISMATCH("op #%d add_unique(key %d) returned node %d although the reference has no such key", idx, k, got->id);
		present[mine->id] = k + 1;
		break;
	case S_ADD_REPLACE:
		r = cds_lfht_add_replace(ht, khash[k], match_fn, &kval[k], &mine->n);
		got = sn(r, "add_replace");
		if (model_count_key(k)) {
			if (!got || present[got->id] != k + 1)
				MISMATCH("op #%d add_replace(key %d) returned %d, the reference holds %d node(s) of that key", idx, k, got ? got->id : -1, model_count_key(k));
			present[got->id] = 0;
			victim = got;
		} else if (got) {
			MISMATCH("op #%d add_replace(key %d) returned node %d although the key was absent", idx, k, got->id);
		}
		present[mine->id] = k + 1;
		break;
	case S_REPLACE:
	case S_REPLACE_EINVAL:
		cds_lfht_lookup(ht, khash[k], match_fn, &kval[k], &it);
		got = sn(cds_lfht_iter_get_node(&it), "lookup");
		if ((got != NULL) != (model_count_key(k) != 0))
			MISMATCH("op #%d lookup(key %d) found %s, reference count %d", idx, k, got ? "a node" : "nothing", model_count_key(k));
		if (!got) {
			nodes[mine->id] = NULL;
			F->read_unlock();
			free(mine);
			return;
		}
		if (op->kind == S_REPLACE_EINVAL) {
			/* the documented argument check: hash and key must both be those of the node being replaced */
			int ok = (k + 1) % SKEYS;
			switch (op->b % 3) {
			case 0:	/* another key with its own hash */
				ret = cds_lfht_replace(ht, &it, khash[ok], match_fn, &kval[ok], &mine->n);
				break;
			case 1:	/* same hash, another key */
				ret = cds_lfht_replace(ht, &it, khash[k], match_fn, &kval[ok], &mine->n);
				break;
			default: /* same key, another hash */
				ret = cds_lfht_replace(ht, &it, khash[k] ^ (1UL << (op->b % 64)), match_fn, &kval[k], &mine->n);
				break;
			}
			if (ret != -EINVAL)
				MISMATCH("op #%d replace with a different %s returned %d instead of -EINVAL", idx,
					op->b % 3 == 0 ? "key and hash" : op->b % 3 == 1 ? "key (same hash)" : "hash (same key)", ret);
			nodes[mine->id] = NULL;
			F->read_unlock();
			free(mine);
			return;
		}
		ret = cds_lfht_replace(ht, &it, khash[k], match_fn, &kval[k], &mine->n);
		if (ret != 0)
			MISMATCH("op #%d replace(node %d) failed with %d on a stored node", idx, got->id, ret);
		present[got->id] = 0;
		present[mine->id] = k + 1;
		victim = got;
		break;
	case S_DEL:
	case S_DEL_TWICE:
		cds_lfht_lookup(ht, khash[k], match_fn, &kval[k], &it);
		got = sn(cds_lfht_iter_get_node(&it), "lookup");
		if ((got != NULL) != (model_count_key(k) != 0))
			MISMATCH("op #%d lookup(key %d) found %s, reference count %d", idx, k, got ? "a node" : "nothing", model_count_key(k));
		if (!got)
			break;
		if (present[got->id] != k + 1)
			MISMATCH("op #%d lookup(key %d) returned node %d which the reference does not hold", idx, k, got->id);
		ret = cds_lfht_del(ht, &got->n);
		if (ret != 0)
			MISMATCH("op #%d del(node %d) failed with %d on a stored node", idx, got->id, ret);
		present[got->id] = 0;
		victim = got;
		if (op->kind == S_DEL_TWICE) {
			struct snode *tmp;
			ret = cds_lfht_del(ht, &got->n);
			if (ret >= 0)
				MISMATCH("op #%d second del of node %d returned %d (must be negative)", idx, got->id, ret);
			if (!cds_lfht_is_node_deleted(&got->n))
				MISMATCH("op #%d is_node_deleted false after del", idx);
			tmp = mk(63, k);
			ret = cds_lfht_replace(ht, &it, khash[k], match_fn, &kval[k], &tmp->n);
			if (ret != -ENOENT)
				MISMATCH("op #%d replace of an already removed node returned %d instead of -ENOENT", idx, ret);
			nodes[63] = NULL;
			free(tmp);
		}
		break;
	case S_LOOKUP:
		cds_lfht_lookup(ht, khash[k], match_fn, &kval[k], &it);
		got = sn(cds_lfht_iter_get_node(&it), "lookup");
		if ((got != NULL) != (model_count_key(k) != 0))
			MISMATCH("op #%d lookup(key %d) found %s, reference count %d", idx, k, got ? "a node" : "nothing", model_count_key(k));
		if (got && present[got->id] != k + 1)
			MISMATCH("op #%d lookup(key %d) returned node %d which the reference does not hold under that key", idx, k, got->id);
		break;
	case S_WALK: {
		uint64_t seen = 0;
		c = 0;
		cds_lfht_lookup(ht, khash[k], match_fn, &kval[k], &it);
		while ((got = sn(cds_lfht_iter_get_node(&it), "lookup/next_duplicate")) != NULL) {
			if (present[got->id] != k + 1)
				MISMATCH("op #%d duplicate walk(key %d) returned node %d which the reference does not hold under that key", idx, k, got->id);
			if (seen & (1ULL << got->id))
				MISMATCH("op #%d duplicate walk(key %d) returned node %d twice", idx, k, got->id);
			seen |= 1ULL << got->id;
			if (++c > SMAXN)
				MISMATCH("op #%d duplicate walk does not terminate", idx);
			cds_lfht_next_duplicate(ht, match_fn, &kval[k], &it);
		}
		if (c != model_count_key(k))
			MISMATCH("op #%d duplicate walk(key %d) returned %d nodes, the reference holds %d", idx, k, c, model_count_key(k));
		break;
	}
	case S_TRAVERSE: {
		uint64_t seen = 0;
		struct cds_lfht_node *n;
		c = 0;
		cds_lfht_for_each(ht, &it, n) {
			got = sn(n, "first/next");
			if (!present[got->id])
				MISMATCH("op #%d traversal visited node %d which the reference does not hold", idx, got->id);
			if (seen & (1ULL << got->id))
				MISMATCH("op #%d traversal visited node %d twice", idx, got->id);
			seen |= 1ULL << got->id;
			if (++c > SMAXN)
				MISMATCH("op #%d traversal does not terminate", idx);
		}
		if (c != model_count())
			MISMATCH("op #%d traversal visited %d nodes, the reference holds %d", idx, c, model_count());
		break;
	}
	case S_COUNT: {
		long before, after;
		unsigned long count;
		cds_lfht_count_nodes(ht, &before, &count, &after);
		if ((int) count != model_count())
			MISMATCH("op #%d count_nodes = %lu, the reference holds %d", idx, count, model_count());
		break;
	}
	}
	F->read_unlock();
	if (victim)
		retire(victim);
	if (op->kind == S_STALE && stale) {
		/* operations through the handle of a node that left the table earlier (by del, replace or add_replace) */
		struct snode *st = stale;
		int r2;
		F->read_lock();
		if (!cds_lfht_is_node_deleted(&st->n))
			MISMATCH("op #%d cds_lfht_is_node_deleted() is false for node %d, which was removed or replaced earlier", idx, st->id);
		r2 = cds_lfht_del(ht, &st->n);
		if (r2 >= 0)
			MISMATCH("op #%d cds_lfht_del() of node %d, which had already left the table, returned %d (must be negative)", idx, st->id, r2);
		F->read_unlock();
		stale = NULL;
		if (st->id & 1) {
			F->call_rcu(&st->rh, free_cb);
		} else {
			F->synchronize_rcu();
			free(st);
		}
	}
}

static void *turn_thread(void *arg)
{
	int me = (int) (long) arg, i;

	usim_thread_name("app%d", me);
	if (!F->is_bp)
		F->register_thread();
	if (F->is_qsbr)
		F->thread_offline();
	for (i = 0; i < nops; i++) {
		if (ops[i].b % nturn_threads != me)
			continue;
		while (uatomic_read(&turn) != i)
			usleep(1000);
		if (!ops[i].skip) {
			if (F->is_qsbr)
				F->thread_online();
			run_op(i);
			if (F->is_qsbr)
				F->thread_offline();
		}
		uatomic_set(&turn, i + 1);
	}
	if (!F->is_bp)
		F->unregister_thread();
	return NULL;
}

void scen_lfht_seq(void)
{
	static const unsigned long pow2[] = { 1, 2, 4, 8, 16, 32, 64 };
	static const unsigned long pool[] = { 0UL, ~0UL, 1UL << 63, 1UL, 5UL, 9UL, 17UL, 2UL, 3UL,
		0x8000000000000001UL, 33UL, 0xffffUL, 6UL, 0x7fffffffffffffffUL, 1UL << 32 };
	unsigned long init, mina, maxb;
	int mmsel, flags, custom, i, id = 0, ret, left;
	const struct cds_lfht_mm_type *mm;
	pthread_t th[2];
	struct cds_lfht_iter it;
	struct cds_lfht_node *n;

	no_faults();
	usim_fault_enable("getcpu_migrate", rnd(2));
	usim_fault_enable("getcpu_fail", rnd(4) == 0);
	F = choose_flavor(0xf);
	choose_rcu_knobs(0);
	mmsel = (int) usim_param("ht.mm", rnd(4));
	init = (unsigned long) usim_param("ht.init", pow2[rnd(6)]);
	mina = (unsigned long) usim_param("ht.min_alloc", pow2[rnd(5)]);		/* min > init happens */
	maxb = (unsigned long) usim_param("ht.max", rnd(8) == 0 ? (mmsel == 0 || mmsel == 3 ? 0 : 1024) :
					    (mmsel == 2 && rnd(4) == 0) ? 512 : pow2[rnd(7)]);	/* max < init happens */
	flags = (int) usim_param("ht.flags", rnd(4));
	custom = 0;
	mm = mmsel == 0 ? &cds_lfht_mm_order : mmsel == 1 ? &cds_lfht_mm_chunk : mmsel == 2 ? &cds_lfht_mm_mmap : NULL;
	usim_set_ncpus((int) usim_param("ncpus", pick(ncpu_choices, 8)));
	usim_set_knob(URCU_VERIF_KNOB_MIN_PARTITION_ORDER, (unsigned long) usim_param("knob.min_partition_order", rnd(3) == 0 ? 12 : rnd(2)));
	usim_set_knob(URCU_VERIF_KNOB_COUNT_COMMIT_ORDER, (unsigned long) usim_param("knob.count_commit_order", 1 + rnd(2)));
	nturn_threads = (int) usim_param("app_threads", 1 + rnd(2));
	usim_describe("{\"flavor\":\"%s\",\"table\":{\"init\":%lu,\"min_alloc\":%lu,\"max\":%lu,\"flags\":%d,\"mm\":%d},\"app_threads\":%d,\"ops\":[",
		F->name, init, mina, maxb, flags, mmsel, nturn_threads);
	(void) custom;
	ht = _cds_lfht_new(init, mina, maxb, flags, mm, F->flavor, NULL);
	if (!ht)
		usim_fail("lfht-api", "cds_lfht_new refused valid power-of-two parameters (init %lu min %lu max %lu)", init, mina, maxb);
	for (i = 0; i < SKEYS; i++) {
		kval[i] = 200 + i;
		khash[i] = pool[rnd(sizeof(pool) / sizeof(pool[0]))];
		if (i && rnd(3) == 0)
			khash[i] = khash[rnd(i)];
	}
	nops = 5 + rnd(usim_tier() ? 56 : 40);
	for (i = 0; i < nops; i++) {
		struct op *op = &ops[i];
		uint32_t r = rnd(100);
		op->a = rnd(rnd(2) ? SKEYS : 3);
		op->b = rnd(2);
		if (r < 20) op->kind = S_ADD;
		else if (r < 30) op->kind = S_ADD_UNIQUE;
		else if (r < 38) op->kind = S_ADD_REPLACE;
		else if (r < 46) op->kind = S_REPLACE;
		else if (r < 60) op->kind = S_DEL;
		else if (r < 68) op->kind = S_LOOKUP;
		else if (r < 76) op->kind = S_WALK;
		else if (r < 82) op->kind = S_TRAVERSE;
		else if (r < 87) op->kind = S_COUNT;
		else if (r < 93) op->kind = S_RESIZE;
		else if (r < 96) op->kind = S_DEL_TWICE;
		else if (r < 98) op->kind = S_STALE;
		else op->kind = S_REPLACE_EINVAL;
		if (op->kind == S_REPLACE_EINVAL)
			op->b = rnd(192);	/* which argument is wrong, and which hash bit */
		if (op->kind <= S_REPLACE || op->kind == S_REPLACE_EINVAL) {
			if (id >= 60)
				op->kind = S_LOOKUP;
			else
				op->v = id++;
		}
		if (op->kind == S_RESIZE) {
			static const unsigned long sz[] = { 0, 1, 2, 3, 4, 5, 7, 8, 16, 24, 32, 64, 100, 512, 1000, ~0UL };
			op->v = (long) sz[rnd(16)];
			/* an unbounded table (max 0) really tries to reach any size: keep the request small */
			if (maxb == 0 && (unsigned long) op->v > 128)
				op->v = 128;
			usim_describe("%s\"resize(%lu)\"", i ? "," : "", (unsigned long) op->v);
		} else {
			usim_describe("%s\"%s(k%d)\"", i ? "," : "", sname[op->kind], op->a);
		}
		op->skip = (int) usim_paramf(0, "skip.0.%d", i);
	}
	usim_describe("]}");
	for (i = 0; i < nturn_threads; i++)
		pthread_create(&th[i], NULL, turn_thread, (void *) (long) i);
	for (i = 0; i < nturn_threads; i++)
		pthread_join(th[i], NULL);

	/* destroy succeeds if and only if the table is empty */
	if (!F->is_bp)
		F->register_thread();
	left = model_count();
	ret = cds_lfht_destroy(ht, NULL);
	if (left && ret == 0)
		MISMATCH("destroy succeeded on a table holding %d nodes", left);
	if (!left && ret != 0)
		MISMATCH("destroy failed (%d) on an empty table", ret);
	if (left) {
		struct snode *all[SMAXN];
		int nall = 0;
		F->read_lock();
		cds_lfht_for_each(ht, &it, n) {
			if (nall >= SMAXN)
				MISMATCH("final traversal does not terminate");
			all[nall++] = sn(n, "first/next");
		}
		if (nall != left)
			MISMATCH("final traversal visited %d nodes, the reference holds %d", nall, left);
		for (i = 0; i < nall; i++)
			if (cds_lfht_del(ht, &all[i]->n))
				MISMATCH("final del of stored node %d failed", all[i]->id);
		F->read_unlock();
		F->synchronize_rcu();
		for (i = 0; i < nall; i++)
			free(all[i]);
		ret = cds_lfht_destroy(ht, NULL);
		if (ret)
			MISMATCH("destroy failed (%d) on an emptied table", ret);
	}
	if (F->is_qsbr)
		F->thread_offline();
	if (flags & CDS_LFHT_AUTO_RESIZE)
		usleep(300000);
	F->barrier();
	if (!F->is_bp)
		F->unregister_thread();
	/* non-trivial here = library threads ran concurrently with the application thread */
	if (usim_nthreads() > 1 + nturn_threads + 1 || (flags & CDS_LFHT_AUTO_RESIZE))
		usim_mark_nontrivial();
}
