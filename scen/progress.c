/*
 * progress.c — scenario `progress` (C17): wait-free and lock-free operations
 * finish on their own wherever the other threads are suspended; non-blocking
 * variants never wait and return WOULDBLOCK only while another operation is
 * really in progress.
 *
 * A thread that is about to execute a "solo" operation freezes every other
 * simulated thread exactly where it stands (between the two stores of an
 * enqueue, after a logical delete, inside a resize, ...), runs the operation
 * alone and is measured: own steps, cpu_relax events, blocking events.
 */
#include "common.h"
#include <urcu/wfcqueue.h>
#include <urcu/wfstack.h>
#include <urcu/lfstack.h>
#include <urcu/rculfqueue.h>
#include <urcu/rculfhash.h>
#include <urcu/call-rcu.h>
#include <urcu/uatomic.h>

enum { S_WFCQ, S_WFS, S_LFS, S_LFQ, S_LFHT, S_READSIDE, S_NSUB };
static const char *const subname[] = { "wfcqueue", "wfstack", "lfstack", "rculfqueue", "rculfhash", "read-side" };

enum {
	P_ENQ, P_DEQ_NB, P_ITER_NB, P_SPLICE_NB, P_DEQ,			/* wfcq */
	P_PUSH, P_POP_ALL, P_POP_NB, P_POP,				/* stacks */
	P_LFQ_ENQ, P_LFQ_DEQ,						/* lfq */
	P_HT_ADD, P_HT_ADD_UNIQUE, P_HT_ADD_REPLACE, P_HT_DEL, P_HT_LOOKUP, P_HT_TRAVERSE, P_HT_RESIZE, /* lfht */
	P_RS_LOCK, P_RS_SYNC, P_RS_QS,					/* read side */
	P_FORK_BRACKET,							/* the call_rcu fork handlers, without the fork */
	P_NK
};
static const char *const opname[] = {
	"enq", "deq_nb", "iter_nb", "splice_nb", "deq_blocking",
	"push", "pop_all", "pop_nb", "pop",
	"lfq_enq", "lfq_deq",
	"ht_add", "ht_add_unique", "ht_add_replace", "ht_del", "ht_lookup", "ht_traverse", "ht_resize",
	"read_lock_unlock", "synchronize_rcu", "quiescent_state",
	"fork_handlers_bracket"
};

struct pnode {
	union {
		struct cds_wfcq_node q;
		struct cds_wfs_node w;
		struct cds_lfs_node l;
		struct cds_lfq_node_rcu f;
		struct cds_lfht_node h;
	} u;
	struct rcu_head rh;
	int id;
};

static int sub;
static const struct flavor_ops *F;
static struct script scripts[MAX_SCRIPT_THREADS];
static int nthreads, consumer;
static struct cds_wfcq_head qh[2];
static struct cds_wfcq_tail qt[2];
static struct cds_wfs_stack ws;
static struct cds_lfs_stack ls;
static struct cds_lfq_queue_rcu lq;
static struct cds_lfht *ht;
static long n_in, n_out;	/* conservation (updated with uatomic) */
static int in_op[MAX_SCRIPT_THREADS];

static int others_in_op(int me)
{
	int t, n = 0;
	for (t = 0; t < nthreads; t++)
		if (t != me && uatomic_read(&in_op[t]))
			n++;
	return n;
}

static struct pnode *mk(int id)
{
	struct pnode *n = malloc(sizeof(*n));
	usim_mem_tag(n, "progress-node");
	n->id = id;
	return n;
}

static int match_fn(struct cds_lfht_node *node, const void *key)
{
	return caa_container_of(node, struct pnode, u.h)->id % 4 == *(const int *) key;
}

static void q_call_rcu(struct rcu_head *head, void (*func)(struct rcu_head *head))
{
	F->call_rcu(head, func);
}

static void free_cb(struct rcu_head *rh) { free(caa_container_of(rh, struct pnode, rh)); }

struct meas { uint64_t steps, relax, blocks; int others; };

static void solo_begin(struct meas *m)
{
	usim_solo_begin();
	m->steps = usim_my_steps();
	m->relax = usim_my_relaxes();
	m->blocks = usim_my_blocks();
}

static void solo_end(struct meas *m, int me, struct op *op, int waitfree)
{
	uint64_t steps = usim_my_steps() - m->steps, relax = usim_my_relaxes() - m->relax,
		 blocks = usim_my_blocks() - m->blocks;
	m->others = others_in_op(me);	/* sampled while everybody else is still frozen */
	usim_solo_end();
	usim_probe(waitfree ? "progress.solo_waitfree_op" : "progress.solo_lockfree_op");
	if (m->others)
		usim_probe("progress.solo_while_others_mid_op");
	if (blocks)
		usim_fail("progress-blocked", "%s %s on %s blocked %lu time(s) while every other thread was suspended (%d of them inside an operation)",
			waitfree ? "wait-free" : "lock-free / non-blocking", opname[op->kind], subname[sub], (unsigned long) blocks, m->others);
	if (relax)
		usim_fail("progress-spun", "%s %s on %s busy-waited (%lu cpu_relax) while every other thread was suspended (%d of them inside an operation)",
			waitfree ? "wait-free" : "lock-free / non-blocking", opname[op->kind], subname[sub], (unsigned long) relax, m->others);
	if (steps > 6000)
		usim_fail("progress-unbounded", "%s %s on %s took %lu of its own steps while running alone",
			waitfree ? "wait-free" : "lock-free / non-blocking", opname[op->kind], subname[sub], (unsigned long) steps);
}

static void wouldblock_rule(struct meas *m, struct op *op)
{
	usim_probe("progress.wouldblock_seen");
	if (!m->others)
		usim_fail("progress-wouldblock", "%s on %s returned WOULDBLOCK although no other operation is in progress", opname[op->kind], subname[sub]);
}

static void do_op(int me, struct op *op)
{
	struct meas m;
	struct pnode *n;
	int solo = op->b;
	int k;

	uatomic_set(&in_op[me], 1);
	switch (op->kind) {
	/* ---------------- wfcqueue ---------------- */
	case P_ENQ:
		n = mk((int) op->v);
		cds_wfcq_node_init(&n->u.q);
		if (solo) solo_begin(&m);
		cds_wfcq_enqueue(&qh[op->a & 1], &qt[op->a & 1], &n->u.q);
		if (solo) solo_end(&m, me, op, 1);
		uatomic_inc(&n_in);
		break;
	case P_DEQ: {
		struct cds_wfcq_node *c = __cds_wfcq_dequeue_blocking(&qh[op->a & 1], &qt[op->a & 1]);
		if (c)
			uatomic_inc(&n_out);
		break;
	}
	case P_DEQ_NB: {
		struct cds_wfcq_node *c;
		if (solo) solo_begin(&m);
		c = __cds_wfcq_dequeue_nonblocking(&qh[op->a & 1], &qt[op->a & 1]);
		if (solo) solo_end(&m, me, op, 0);
		if (c == CDS_WFCQ_WOULDBLOCK) {
			if (solo)
				wouldblock_rule(&m, op);
		} else if (c) {
			uatomic_inc(&n_out);
		}
		break;
	}
	case P_ITER_NB: {
		struct cds_wfcq_node *it;
		int cnt = 0;
		if (solo) solo_begin(&m);
		it = __cds_wfcq_first_nonblocking(&qh[op->a & 1], &qt[op->a & 1]);
		while (it && it != CDS_WFCQ_WOULDBLOCK && cnt++ < 100)
			it = __cds_wfcq_next_nonblocking(&qh[op->a & 1], &qt[op->a & 1], it);
		if (solo) solo_end(&m, me, op, 0);
		if (it == CDS_WFCQ_WOULDBLOCK && solo)
			wouldblock_rule(&m, op);
		break;
	}
	case P_SPLICE_NB: {
		enum cds_wfcq_ret r;
		int q = op->a & 1;
		if (solo) solo_begin(&m);
		r = __cds_wfcq_splice_nonblocking(&qh[!q], &qt[!q], &qh[q], &qt[q]);
		if (solo) solo_end(&m, me, op, 0);
		if (r == CDS_WFCQ_RET_WOULDBLOCK && solo)
			wouldblock_rule(&m, op);
		break;
	}
	/* ---------------- stacks ---------------- */
	case P_PUSH:
		n = mk((int) op->v);
		if (solo) solo_begin(&m);
		if (sub == S_WFS) {
			cds_wfs_node_init(&n->u.w);
			cds_wfs_push(&ws, &n->u.w);
		} else {
			cds_lfs_node_init(&n->u.l);
			cds_lfs_push(&ls, &n->u.l);
		}
		if (solo) solo_end(&m, me, op, sub == S_WFS);
		uatomic_inc(&n_in);
		break;
	case P_POP_ALL:
		if (sub == S_WFS) {
			struct cds_wfs_head *h;
			struct cds_wfs_node *it;
			if (solo) solo_begin(&m);
			h = __cds_wfs_pop_all(&ws);
			if (solo) solo_end(&m, me, op, 1);
			/*
			 * Walking the private list: the non-blocking step never waits for a pusher that is
			 * suspended half-way (it says WOULDBLOCK instead); only then is the blocking step used.
			 */
			for (it = cds_wfs_first(h); it != NULL; ) {
				struct cds_wfs_node *nx;
				uatomic_inc(&n_out);
				if (solo) solo_begin(&m);
				nx = cds_wfs_next_nonblocking(it);
				if (solo) solo_end(&m, me, op, 0);
				if (nx == CDS_WFS_WOULDBLOCK) {
					if (solo)
						wouldblock_rule(&m, op);
					nx = cds_wfs_next_blocking(it);
				}
				it = nx;
			}
		} else {
			struct cds_lfs_head *h;
			struct cds_lfs_node *it;
			if (solo) solo_begin(&m);
			h = __cds_lfs_pop_all(&ls);
			if (solo) solo_end(&m, me, op, 1);
			if (h)
				cds_lfs_for_each(h, it)
					uatomic_inc(&n_out);
		}
		break;
	case P_POP_NB: {
		struct cds_wfs_node *w;
		int st;
		if (solo) solo_begin(&m);
		w = __cds_wfs_pop_with_state_nonblocking(&ws, &st);
		if (solo) solo_end(&m, me, op, 0);
		if (w == CDS_WFS_WOULDBLOCK) {
			if (solo)
				wouldblock_rule(&m, op);
		} else if (w) {
			uatomic_inc(&n_out);
		}
		break;
	}
	case P_POP: {
		void *p;
		F->read_lock();
		if (solo) solo_begin(&m);
		p = sub == S_WFS ? (void *) __cds_wfs_pop_blocking(&ws) : (void *) __cds_lfs_pop(&ls);
		if (solo) solo_end(&m, me, op, 0);
		F->read_unlock();
		if (p)
			uatomic_inc(&n_out);
		break;
	}
	/* ---------------- rculfqueue ---------------- */
	case P_LFQ_ENQ:
		n = mk((int) op->v);
		cds_lfq_node_init_rcu(&n->u.f);
		F->read_lock();
		if (solo) solo_begin(&m);
		cds_lfq_enqueue_rcu(&lq, &n->u.f);
		if (solo) solo_end(&m, me, op, 0);
		F->read_unlock();
		uatomic_inc(&n_in);
		break;
	case P_LFQ_DEQ: {
		struct cds_lfq_node_rcu *r;
		F->read_lock();
		if (solo) solo_begin(&m);
		r = cds_lfq_dequeue_rcu(&lq);
		if (solo) solo_end(&m, me, op, 0);
		F->read_unlock();
		if (r) {
			uatomic_inc(&n_out);
			F->call_rcu(&caa_container_of(r, struct pnode, u.f)->rh, free_cb);
		}
		break;
	}
	/* ---------------- rculfhash ---------------- */
	case P_HT_ADD:
	case P_HT_ADD_UNIQUE:
	case P_HT_ADD_REPLACE: {
		struct cds_lfht_node *r = NULL;
		n = mk((int) op->v);
		cds_lfht_node_init(&n->u.h);
		k = n->id % 4;
		F->read_lock();
		if (solo) solo_begin(&m);
		if (op->kind == P_HT_ADD)
			cds_lfht_add(ht, (unsigned long) k * 16 + 1, &n->u.h);
		else if (op->kind == P_HT_ADD_UNIQUE)
			r = cds_lfht_add_unique(ht, (unsigned long) k * 16 + 1, match_fn, &k, &n->u.h);
		else
			r = cds_lfht_add_replace(ht, (unsigned long) k * 16 + 1, match_fn, &k, &n->u.h);
		if (solo) solo_end(&m, me, op, 0);
		F->read_unlock();
		if (op->kind == P_HT_ADD_UNIQUE && r != &n->u.h)
			free(n);
		else
			uatomic_inc(&n_in);
		if (op->kind == P_HT_ADD_REPLACE && r) {
			uatomic_inc(&n_out);
			F->call_rcu(&caa_container_of(r, struct pnode, u.h)->rh, free_cb);
		}
		break;
	}
	case P_HT_DEL: {
		struct cds_lfht_iter it;
		struct cds_lfht_node *r;
		int ret = -1;
		k = op->a % 4;
		F->read_lock();
		cds_lfht_lookup(ht, (unsigned long) k * 16 + 1, match_fn, &k, &it);
		r = cds_lfht_iter_get_node(&it);
		if (r) {
			if (solo) solo_begin(&m);
			ret = cds_lfht_del(ht, r);
			if (solo) solo_end(&m, me, op, 0);
		}
		F->read_unlock();
		if (r && ret == 0) {
			uatomic_inc(&n_out);
			F->call_rcu(&caa_container_of(r, struct pnode, u.h)->rh, free_cb);
		}
		break;
	}
	case P_HT_LOOKUP: {
		struct cds_lfht_iter it;
		k = op->a % 4;
		F->read_lock();
		if (solo) solo_begin(&m);
		cds_lfht_lookup(ht, (unsigned long) k * 16 + 1, match_fn, &k, &it);
		while (cds_lfht_iter_get_node(&it))
			cds_lfht_next_duplicate(ht, match_fn, &k, &it);
		if (solo) solo_end(&m, me, op, 1);
		F->read_unlock();
		break;
	}
	case P_HT_TRAVERSE: {
		struct cds_lfht_iter it;
		struct cds_lfht_node *r;
		int cnt = 0;
		F->read_lock();
		if (solo) solo_begin(&m);
		cds_lfht_for_each(ht, &it, r)
			if (++cnt > 200)
				usim_fail("lfht-traversal", "traversal does not terminate");
		if (solo) solo_end(&m, me, op, 1);
		F->read_unlock();
		break;
	}
	case P_HT_RESIZE:
		cds_lfht_resize(ht, 1UL << (op->a % 5));
		break;
	/* ---------------- read side ---------------- */
	case P_RS_LOCK:
		if (solo) solo_begin(&m);
		F->read_lock();
		F->read_lock();
		F->read_unlock();
		F->read_unlock();
		if (solo) solo_end(&m, me, op, 1);
		break;
	case P_RS_QS:
		if (F->is_qsbr) {
			if (solo) solo_begin(&m);
			F->quiescent_state();
			if (solo) solo_end(&m, me, op, 1);
		}
		break;
	case P_RS_SYNC:
		F->synchronize_rcu();
		break;
	case P_FORK_BRACKET: {
		/*
		 * A thread on its way through fork(): helper threads and the hash table's resize worker are
		 * paused between the two handlers. Whoever is suspended in there must not hold up the
		 * non-blocking operations of the others (never measured itself; qsbr: offline, 8.3).
		 */
		int k;
		if (F->is_qsbr)
			F->thread_offline();
		F->call_rcu_before_fork();
		for (k = 0; k < 3 + op->a; k++)
			usim_pause();
		F->call_rcu_after_fork_parent();
		if (F->is_qsbr)
			F->thread_online();
		usim_probe("progress.fork_handlers_bracket");
		break;
	}
	}
	uatomic_set(&in_op[me], 0);
}

static void *p_thread(void *arg)
{
	struct script *s = arg;
	int me = (int) (s - scripts), i;

	usim_thread_name("script%d", me);
	if (!F->is_bp)
		F->register_thread();
	if (F->is_bp)
		F->read_lock(), F->read_unlock();	/* registered before being measured */
	for (i = 0; i < s->nops; i++) {
		struct op *op = &s->ops[i];
		if (op->skip)
			continue;
		usim_set_op("%d.%d %s%s", me, i, opname[op->kind], op->b ? " (solo)" : "");
		if (F->is_qsbr && sub != S_READSIDE)
			F->thread_online();
		do_op(me, op);
		if (F->is_qsbr && sub != S_READSIDE)
			F->thread_offline();
	}
	usim_quiet_vote();
	if (!F->is_bp)
		F->unregister_thread();
	return NULL;
}

void scen_progress(void)
{
	int t, i, voters = 0, id = 0, bracket_done = 0;
	long left = 0;

	no_faults();
	F = choose_flavor(0xf);
	choose_rcu_knobs(0);
	sub = (int) usim_param("structure", rnd(S_NSUB));
	nthreads = (int) usim_param("nthreads", 2 + rnd(3));
	consumer = rnd(nthreads);
	{
		/* a kernel without futex(): the library's fallback must keep the read side wait-free too */
		extern void usim_set_futex_enosys(int on);
		usim_set_futex_enosys((int) usim_param("futex_enosys", rnd(4) == 0));
	}
	usim_set_ncpus(pick(ncpu_choices, 8));
	usim_set_knob(URCU_VERIF_KNOB_MIN_PARTITION_ORDER, rnd(2));
	usim_describe("{\"structure\":\"%s\",\"flavor\":\"%s\",\"consumer\":%d,\"threads\":[", subname[sub], F->name, consumer);
	cds_wfcq_init(&qh[0], &qt[0]);
	cds_wfcq_init(&qh[1], &qt[1]);
	cds_wfs_init(&ws);
	cds_lfs_init(&ls);
	if (!F->is_bp)
		F->register_thread();
	/* call_rcu()'s one-time creation of its default helper takes a mutex: done before anything is measured */
	(void) F->get_default_call_rcu_data();
	if (sub == S_LFQ)
		cds_lfq_init_rcu(&lq, q_call_rcu);
	if (sub == S_LFHT) {
		ht = cds_lfht_new_flavor(1 << rnd(3), 1, 32, rnd(2) ? CDS_LFHT_AUTO_RESIZE : 0, F->flavor, NULL);
		if (!ht)
			usim_fail("lfht-api", "cds_lfht_new failed");
	}
	if (F->is_qsbr)
		F->thread_offline();
	for (t = 0; t < nthreads; t++) {
		struct script *s = &scripts[t];
		int cons = t == consumer;
		s->nops = 2 + rnd(usim_tier() ? 8 : 6);
		usim_describe("%s[", t ? "," : "");
		for (i = 0; i < s->nops; i++) {
			struct op *op = &s->ops[i];
			uint32_t r = rnd(100);
			op->a = rnd(8);
			op->b = rnd(3) == 0;	/* solo */
			op->v = id++;
			switch (sub) {
			case S_WFCQ:
				if (!cons || r < 35) op->kind = P_ENQ;
				else if (r < 55) op->kind = P_DEQ_NB;
				else if (r < 70) op->kind = P_ITER_NB;
				else if (r < 82) op->kind = P_SPLICE_NB;
				else { op->kind = P_DEQ; op->b = 0; }
				break;
			case S_WFS:
				if (!cons || r < 40) op->kind = P_PUSH;
				else if (r < 60) op->kind = P_POP_ALL;
				else if (r < 85) op->kind = P_POP_NB;
				else { op->kind = P_POP; op->b = 0; }
				break;
			case S_LFS:
				if (r < 50) op->kind = P_PUSH;
				else if (r < 62) op->kind = P_POP_ALL;
				else op->kind = P_POP;
				break;
			case S_LFQ:
				op->kind = r < 55 ? P_LFQ_ENQ : P_LFQ_DEQ;
				break;
			case S_LFHT:
				if (r < 22) op->kind = P_HT_ADD;
				else if (r < 34) op->kind = P_HT_ADD_UNIQUE;
				else if (r < 44) op->kind = P_HT_ADD_REPLACE;
				else if (r < 62) op->kind = P_HT_DEL;
				else if (r < 76) op->kind = P_HT_LOOKUP;
				else if (r < 86) op->kind = P_HT_TRAVERSE;
				else { op->kind = P_HT_RESIZE; op->b = 0; }
				break;
			default:
				if (r < 60) op->kind = P_RS_LOCK;
				else if (r < 75) op->kind = P_RS_QS;
				else { op->kind = P_RS_SYNC; op->b = 0; }
				break;
			}
			if (!cons && !bracket_done && (sub == S_LFHT || sub == S_LFQ) && rnd(12) == 0) {
				op->kind = P_FORK_BRACKET;
				op->b = 0;
				bracket_done = 1;
			}
			usim_describe("%s\"%s%s\"", i ? "," : "", opname[op->kind], op->b ? "*" : "");
		}
		usim_describe("]");
	}
	usim_describe("]}");
	script_apply_skips(scripts, nthreads);
	for (t = 0; t < nthreads; t++)
		if (!scripts[t].skip)
			voters++;
	usim_quiet_expect(voters);
	for (t = 0; t < nthreads; t++)
		if (!scripts[t].skip)
			pthread_create(&scripts[t].th, NULL, p_thread, &scripts[t]);
	for (t = 0; t < nthreads; t++)
		if (!scripts[t].skip)
			pthread_join(scripts[t].th, NULL);
	/* after everything was thawed the structure must still be intact: conservation */
	if (F->is_qsbr)
		F->thread_online();
	switch (sub) {
	case S_WFCQ: {
		int q;
		for (q = 0; q < 2; q++)
			while (__cds_wfcq_dequeue_blocking(&qh[q], &qt[q]))
				if (++left > 200)
					usim_fail("progress-conservation", "final drain does not terminate");
		break;
	}
	case S_WFS: {
		struct cds_wfs_head *h = __cds_wfs_pop_all(&ws);
		struct cds_wfs_node *it;
		cds_wfs_for_each_blocking(h, it)
			if (++left > 200)
				usim_fail("progress-conservation", "final drain does not terminate");
		break;
	}
	case S_LFS:
		while (__cds_lfs_pop(&ls))
			if (++left > 200)
				usim_fail("progress-conservation", "final drain does not terminate");
		break;
	case S_LFQ:
		F->read_lock();
		while (cds_lfq_dequeue_rcu(&lq))
			if (++left > 200)
				usim_fail("progress-conservation", "final drain does not terminate");
		F->read_unlock();
		break;
	case S_LFHT: {
		struct cds_lfht_iter it;
		struct cds_lfht_node *r;
		F->read_lock();
		cds_lfht_for_each(ht, &it, r)
			if (++left > 200)
				usim_fail("progress-conservation", "final traversal does not terminate");
		F->read_unlock();
		break;
	}
	}
	if (sub != S_READSIDE && n_in - n_out != left)
		usim_fail("progress-conservation", "%s: %ld nodes went in, %ld came out, %ld are left", subname[sub], n_in, n_out, left);
	if (F->is_qsbr)
		F->thread_offline();
	F->barrier();
	if (!F->is_bp)
		F->unregister_thread();
	usim_mark_nontrivial();
}
