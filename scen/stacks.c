/*
 * stacks.c — scenario `stacks` (C11): cds_wfs, cds_lfs and legacy cds_lfs_rcu
 * checked for LIFO linearizability (WGL), in the mutex-protected,
 * single-consumer and RCU-protected schemes, with node recycling through a
 * grace period.
 */
#include "common.h"
#include "wgl.h"
#define CDS_LFS_RCU_DEPRECATED
#include <urcu/wfstack.h>
#include <urcu/lfstack.h>
#include <urcu/rculfstack.h>

enum { V_WFS, V_LFS, V_LFSRCU };
enum { M_LOCKED, M_SINGLE, M_RCU };
enum { OP_PUSH, OP_POP, OP_POP_STATE, OP_POP_NB, OP_POP_ALL, OP_EMPTY, OP_POP_REPUSH, OP_POP_ALL_REPUSH, OP_NK };
static const char *const opname[] = { "push", "pop", "pop_state", "pop_nb", "pop_all", "empty", "pop_repush", "pop_all_repush" };

struct snode {
	union {
		struct cds_wfs_node w;
		struct cds_lfs_node l;
		struct cds_lfs_node_rcu r;
	} u;
	int id;
};

static struct cds_wfs_stack ws;
static struct cds_lfs_stack ls;
static struct cds_lfs_stack_rcu rs;
static const struct flavor_ops *F;
static struct wgl_hist H;
static struct script scripts[MAX_SCRIPT_THREADS];
static int nthreads, variant, mode, consumer;

static struct snode *mknode(int id)
{
	struct snode *n = malloc(sizeof(*n));
	usim_mem_tag(n, "stack-node");
	n->id = id;
	return n;
}

static int push_node(struct snode *n)
{
	switch (variant) {
	case V_WFS:
		cds_wfs_node_init(&n->u.w);
		return cds_wfs_push(&ws, &n->u.w);
	case V_LFS:
		cds_lfs_node_init(&n->u.l);
		return cds_lfs_push(&ls, &n->u.l);
	default:
		cds_lfs_node_init_rcu(&n->u.r);
		return cds_lfs_push_rcu(&rs, &n->u.r);
	}
}

/* reclaim a popped node according to the synchronisation scheme */
static void retire(struct snode *n)
{
	if (!(n->id & 1))
		return;		/* half of the nodes stay allocated */
	if (mode == M_RCU)
		F->synchronize_rcu();	/* nodes may be freed only after a grace period */
	free(n);
}

static void do_op(int me, struct op *op)
{
	int i, st = 0;
	struct snode *n = NULL;

	if (H.n + 2 > WGL_MAXOPS - 1)
		return;
	switch (op->kind) {
	case OP_PUSH:
		n = mknode((int) op->v);
		i = wgl_begin(&H, WS_PUSH, 0, n->id);
		st = push_node(n);
		wgl_end(&H, i, st != 0);
		break;
	case OP_POP:
	case OP_POP_STATE:
	case OP_POP_NB:
	case OP_POP_REPUSH: {
		long last = -1;
		int wouldblock = 0;
		if (mode == M_RCU)
			F->read_lock();
		i = wgl_begin(&H, WS_POP, 0, 0);
		if (variant == V_WFS) {
			struct cds_wfs_node *w;
			if (op->kind == OP_POP_NB) {
				if (mode == M_LOCKED)
					cds_wfs_pop_lock(&ws);
				w = __cds_wfs_pop_with_state_nonblocking(&ws, &st);
				if (mode == M_LOCKED)
					cds_wfs_pop_unlock(&ws);
				if (w == CDS_WFS_WOULDBLOCK) {
					wouldblock = 1;
					w = NULL;
				} else if (w) {
					last = !!(st & CDS_WFS_STATE_LAST);
				}
			} else if (op->kind == OP_POP_STATE) {
				w = mode == M_LOCKED ? cds_wfs_pop_with_state_blocking(&ws, &st)
						     : __cds_wfs_pop_with_state_blocking(&ws, &st);
				if (w)
					last = !!(st & CDS_WFS_STATE_LAST);
			} else {
				w = mode == M_LOCKED ? cds_wfs_pop_blocking(&ws) : __cds_wfs_pop_blocking(&ws);
			}
			n = w ? caa_container_of(RET_NODE(w, "cds_wfs_pop"), struct snode, u.w) : NULL;
		} else if (variant == V_LFS) {
			struct cds_lfs_node *l;
			l = mode == M_LOCKED ? cds_lfs_pop_blocking(&ls) : __cds_lfs_pop(&ls);
			n = l ? caa_container_of(RET_NODE(l, "cds_lfs_pop"), struct snode, u.l) : NULL;
		} else {
			struct cds_lfs_node_rcu *r = cds_lfs_pop_rcu(&rs);
			n = r ? caa_container_of(RET_NODE(r, "cds_lfs_pop_rcu"), struct snode, u.r) : NULL;
		}
		if (wouldblock) {
			wgl_cancel(&H, i);
			usim_probe("stack.pop_wouldblock");
		} else {
			wgl_end2(&H, i, n ? n->id : -1, last);
		}
		if (mode == M_RCU)
			F->read_unlock();
		if (n && op->kind == OP_POP_REPUSH) {
			/* recycle: legal only after a grace period in the RCU scheme */
			if (mode == M_RCU)
				F->synchronize_rcu();
			i = wgl_begin(&H, WS_PUSH, 0, n->id);
			st = push_node(n);
			wgl_end(&H, i, st != 0);
			usim_probe("stack.node_recycled");
		} else if (n) {
			retire(n);
		}
		break;
	}
	case OP_POP_ALL:
	case OP_POP_ALL_REPUSH: {
		struct snode *got[WGL_MAXLIST];
		int ngot = 0, k;
		i = wgl_begin(&H, WS_POP_ALL, 0, 0);
		if (variant == V_WFS) {
			struct cds_wfs_head *h;
			struct cds_wfs_node *it, *tmp;
			h = mode == M_LOCKED ? cds_wfs_pop_all_blocking(&ws) : __cds_wfs_pop_all(&ws);
			wgl_end(&H, i, 0);
			if (op->b & 1) {
				/* non-blocking iteration: WOULDBLOCK while a push is half-way, never a short list */
				for (it = cds_wfs_first(h); it != NULL; it = tmp) {
					int spins = 0;
					if (H.ops[i].nlist >= WGL_MAXLIST)
						usim_fail("stack-iteration", "iteration over pop_all result does not terminate");
					n = caa_container_of(RET_NODE(it, "iteration over the cds_wfs_pop_all result (first/next)"), struct snode, u.w);
					wgl_list_add(&H, i, n->id);
					got[ngot++] = n;
					while ((tmp = cds_wfs_next_nonblocking(it)) == CDS_WFS_WOULDBLOCK) {
						usim_probe("stack.iter_wouldblock");
						if (++spins > 2000) {
							tmp = cds_wfs_next_blocking(it);
							break;
						}
						usim_pause();
					}
				}
			} else
			cds_wfs_for_each_blocking_safe(h, it, tmp) {
				if (H.ops[i].nlist >= WGL_MAXLIST)
					usim_fail("stack-iteration", "iteration over pop_all result does not terminate");
				n = caa_container_of(RET_NODE(it, "iteration over the cds_wfs_pop_all result (first/next)"), struct snode, u.w);
				wgl_list_add(&H, i, n->id);
				got[ngot++] = n;
			}
		} else if (variant == V_LFS) {
			struct cds_lfs_head *h;
			struct cds_lfs_node *it, *tmp;
			h = mode == M_LOCKED ? cds_lfs_pop_all_blocking(&ls) : __cds_lfs_pop_all(&ls);
			wgl_end(&H, i, 0);
			if (h) {
				cds_lfs_for_each_safe(h, it, tmp) {
					if (H.ops[i].nlist >= WGL_MAXLIST)
						usim_fail("stack-iteration", "iteration over pop_all result does not terminate");
					n = caa_container_of(RET_NODE(it, "iteration over the cds_lfs_pop_all result"), struct snode, u.l);
					wgl_list_add(&H, i, n->id);
					got[ngot++] = n;
				}
			}
		} else {
			wgl_cancel(&H, i);
		}
		if (op->kind == OP_POP_ALL_REPUSH && ngot) {
			/* the owner of the popped nodes pushes them back; in the RCU scheme only after a grace period */
			if (mode == M_RCU)
				F->synchronize_rcu();
			/* pushed back in pop order or in reverse, a random subset only (the rest is reclaimed) */
			for (k = 0; k < ngot; k++) {
				struct snode *x = got[(op->c & 1) ? ngot - 1 - k : k];
				if (((op->c >> (1 + k)) & 3) == 0 || H.n + 2 > WGL_MAXOPS - 1) {
					retire(x);
					continue;
				}
				{
					int j = wgl_begin(&H, WS_PUSH, 0, x->id);
					st = push_node(x);
					wgl_end(&H, j, st != 0);
				}
			}
			usim_probe("stack.pop_all_recycled");
		}
		break;
	}
	case OP_EMPTY: {
		bool r;
		if (variant == V_LFSRCU)
			break;
		i = wgl_begin(&H, WS_EMPTY, 0, 0);
		r = variant == V_WFS ? cds_wfs_empty(&ws) : cds_lfs_empty(&ls);
		wgl_end(&H, i, r);
		break;
	}
	}
	(void) me;
}

static void *s_thread(void *arg)
{
	struct script *s = arg;
	int me = (int) (s - scripts), i;

	usim_thread_name("script%d", me);
	if (mode == M_RCU && !F->is_bp)
		F->register_thread();
	if (mode == M_RCU && F->is_qsbr)
		F->thread_offline();	/* qsbr: go online only around operations */
	for (i = 0; i < s->nops; i++) {
		struct op *op = &s->ops[i];
		if (op->skip)
			continue;
		usim_trace("op %d.%d %s", me, i, opname[op->kind]);
		if (mode == M_RCU && F->is_qsbr)
			F->thread_online();
		op_stall_begin(op);
		do_op(me, op);
		op_stall_end();
		if (mode == M_RCU && F->is_qsbr)
			F->thread_offline();
	}
	usim_quiet_vote();
	if (mode == M_RCU && !F->is_bp)
		F->unregister_thread();
	return NULL;
}

void scen_stacks(void)
{
	int t, i, voters = 0, total = 0, id = 0, roles;
	char why[3000];

	no_faults();
	usim_fault_enable("poll_eintr", rnd(2));
	wgl_init(&H, WGL_LIFO);
	variant = (int) usim_param("variant", rnd(8) == 0 ? V_LFSRCU : rnd(2));
	if (variant == V_LFSRCU)
		mode = M_RCU;
	else if (variant == V_LFS)
		mode = (int) usim_param("mode", rnd(3));
	else
		mode = (int) usim_param("mode", rnd(2));
	F = choose_flavor(0xf);
	choose_rcu_knobs(0);
	nthreads = (int) usim_param("nthreads", 2 + rnd(3));
	consumer = rnd(nthreads);
	usim_describe("\"variant\":\"%s\",\"mode\":\"%s\",\"flavor\":\"%s\",\"consumer\":%d,\"threads\":[",
		variant == V_WFS ? "wfstack" : variant == V_LFS ? "lfstack" : "rculfstack",
		mode == M_LOCKED ? "locked" : mode == M_SINGLE ? "single-consumer" : "rcu", F->name, consumer);
	cds_wfs_init(&ws);
	cds_lfs_init(&ls);
	cds_lfs_init_rcu(&rs);
	/*
	 * Recycling in focus (a quarter of the runs in which several threads may pop): one thread pops and is
	 * often suspended inside its pop, another takes everything (or one node) and pushes it straight back,
	 * the others push: the ABA family the synchronisation rules of each stack exist to exclude.
	 */
	roles = mode != M_SINGLE && nthreads >= 3 && usim_param("roles", rnd(4) == 0);
	for (t = 0; t < nthreads; t++) {
		struct script *s = &scripts[t];
		int may_pop = mode != M_SINGLE || t == consumer;
		s->nops = 1 + rnd(usim_tier() ? 8 : 6);
		if (total + s->nops > 22)
			s->nops = 22 - total > 0 ? 22 - total : 0;
		total += s->nops;
		usim_describe("%s[", t ? "," : "");
		for (i = 0; i < s->nops; i++) {
			struct op *op = &s->ops[i];
			uint32_t r = rnd(100);
			op->v = id++;
			op->b = rnd(2);
			op->c = (int) rnd(1 << 20);
			op_stall_gen(op, 5, 8);
			if (!may_pop) op->kind = r < 80 ? OP_PUSH : OP_EMPTY;
			else if (r < 38) op->kind = OP_PUSH;
			else if (r < 58) op->kind = OP_POP;
			else if (r < 66) op->kind = variant == V_WFS ? OP_POP_STATE : OP_POP;
			else if (r < 72) op->kind = variant == V_WFS ? OP_POP_NB : OP_POP;
			else if (r < 82) op->kind = variant == V_LFSRCU ? OP_POP : OP_POP_ALL;
			else if (r < 90) op->kind = OP_EMPTY;
			else op->kind = (r < 95 || variant == V_LFSRCU) ? OP_POP_REPUSH : OP_POP_ALL_REPUSH;
			if (roles && t == 0) {
				/* suspended (long) around the decisive cmpxchg of its pop */
				op->kind = rnd(4) ? OP_POP : OP_PUSH;
				op->stall_ord = (unsigned char) (rnd(3) ? 2 + rnd(3) : 0);
				op->stall_len = (unsigned short) (800 + rnd(2500));
			} else if (roles && t == 1) {
				/* suspended (briefly) right before it takes the node(s) */
				op->kind = rnd(4) == 0 ? OP_PUSH : (variant == V_LFSRCU || rnd(2)) ? OP_POP_REPUSH : OP_POP_ALL_REPUSH;
				op->stall_ord = (unsigned char) (rnd(2) ? 1 + rnd(2) : 0);
				op->stall_len = (unsigned short) (100 + rnd(500));
			} else if (roles) {
				op->kind = rnd(5) ? OP_PUSH : OP_EMPTY;
			}
			/* pop_all in the RCU scheme hands nodes to the caller: they are not reused here */
			usim_describe("%s\"%s\"", i ? "," : "", opname[op->kind]);
		}
		usim_describe("]");
	}
	usim_describe("]%s", roles ? ",\"roles\":1" : "");
	script_apply_skips(scripts, nthreads);
	for (t = 0; t < nthreads; t++)
		if (!scripts[t].skip)
			voters++;
	usim_quiet_expect(voters);
	for (t = 0; t < nthreads; t++)
		if (!scripts[t].skip)
			pthread_create(&scripts[t].th, NULL, s_thread, &scripts[t]);
	for (t = 0; t < nthreads; t++)
		if (!scripts[t].skip)
			pthread_join(scripts[t].th, NULL);
	/* conservation: the rest must be exactly what the model holds */
	i = wgl_begin(&H, WS_POP_ALL, 0, 0);
	if (variant == V_WFS) {
		struct cds_wfs_head *h = __cds_wfs_pop_all(&ws);
		struct cds_wfs_node *it;
		cds_wfs_for_each_blocking(h, it) {
			if (H.ops[i].nlist >= WGL_MAXLIST)
				usim_fail("stack-iteration", "final iteration does not terminate");
			wgl_list_add(&H, i, caa_container_of(RET_NODE(it, "iteration over the cds_wfs_pop_all result (first/next)"), struct snode, u.w)->id);
		}
	} else if (variant == V_LFS) {
		struct cds_lfs_head *h = __cds_lfs_pop_all(&ls);
		struct cds_lfs_node *it;
		if (h) {
			cds_lfs_for_each(h, it) {
				if (H.ops[i].nlist >= WGL_MAXLIST)
					usim_fail("stack-iteration", "final iteration does not terminate");
				wgl_list_add(&H, i, caa_container_of(RET_NODE(it, "iteration over the cds_lfs_pop_all result"), struct snode, u.l)->id);
			}
		}
	} else {
		struct cds_lfs_node_rcu *r;
		/* single-threaded now: pop one by one */
		while ((r = cds_lfs_pop_rcu(&rs)) != NULL) {
			if (H.ops[i].nlist >= WGL_MAXLIST)
				usim_fail("stack-iteration", "final drain does not terminate");
			wgl_list_add(&H, i, caa_container_of(RET_NODE(r, "cds_lfs_pop_rcu"), struct snode, u.r)->id);
		}
	}
	wgl_end(&H, i, 0);
	if (!wgl_check(&H, why, sizeof(why)))
		usim_fail("not-linearizable", "stack history is not a linearizable LIFO: %s", why);
	if (wgl_has_overlap(&H))
		usim_mark_nontrivial();
	usim_probe_n("wgl.states", H.states_explored);
}
