/*
 * rculist.c — scenario `rculist` (C18): cds_list_*_rcu and cds_hlist_*_rcu with
 * one mutually excluded updater at a time and concurrent readers.
 */
#include "common.h"
#include <urcu/rculist.h>
#include <urcu/rcuhlist.h>
#include <urcu/call-rcu.h>

enum { OP_ADD, OP_ADD_TAIL, OP_DEL, OP_REPLACE, OP_TRAVERSE, OP_NK };
static const char *const opname[] = { "add", "add_tail", "del", "replace", "traverse" };

struct lnode {
	struct cds_list_head l;
	struct cds_hlist_node h;
	struct rcu_head rh;
	long id, a, pad[2], b;
};

static CDS_LIST_HEAD(list);
static struct cds_hlist_head hlist;
static pthread_mutex_t upd = PTHREAD_MUTEX_INITIALIZER;
static const struct flavor_ops *F;
static struct script scripts[MAX_SCRIPT_THREADS];
static int nthreads, use_hlist;
/* updater-side model (touched only under `upd`) */
static struct lnode *live[64];
static int nlive;

static struct lnode *mk(int id)
{
	struct lnode *n = malloc(sizeof(*n));
	usim_mem_tag(n, "list-node");
	n->id = id;
	n->a = id * 5 + 3;
	n->b = id * 11 + 7;
	return n;
}

static void free_cb(struct rcu_head *rh) { free(caa_container_of(rh, struct lnode, rh)); }

static void retire(struct lnode *n)
{
	if (n->id & 1) {
		F->call_rcu(&n->rh, free_cb);
	} else {
		F->synchronize_rcu();
		free(n);
	}
}

static void check_payload(struct lnode *n)
{
	long id = n->id, a = n->a, b = n->b;
	if (id < 0 || id >= 64 || a != id * 5 + 3 || b != id * 11 + 7)
		usim_fail("rculist-garbage", "reader saw a node with inconsistent contents (id %ld a %ld b %ld)", id, a, b);
}

static void do_op(int me, struct op *op)
{
	struct lnode *n, *victim = NULL;
	uint64_t inv;
	int i, added = -1, removed = -1;
	(void) me;

	if (op->kind == OP_TRAVERSE) {
		int t, guard = 0;
		F->read_lock();
		t = lor_trav_begin();
		/* every documented iterator is exercised (op->b picks the form) */
		if (use_hlist) {
			struct cds_hlist_node *pos;
			switch (op->b % 3) {
			case 0:
				cds_hlist_for_each_entry_rcu(n, pos, &hlist, h) {
					if (++guard > 70)
						usim_fail("rculist-no-termination", "hlist traversal does not terminate");
					check_payload(n);
					lor_trav_visit(t, (int) n->id);
				}
				break;
			case 1:
				cds_hlist_for_each_entry_rcu_2(n, &hlist, h) {
					if (++guard > 70)
						usim_fail("rculist-no-termination", "hlist traversal does not terminate");
					if (!usim_mem_is_live(n) || (unsigned long) n < 4096 || (unsigned long) n > 0x7fffffffffffUL)
						usim_fail("rculist-garbage", "hlist iterator handed out %p, which is not a list node", (void *) n);
					check_payload(n);
					lor_trav_visit(t, (int) n->id);
				}
				break;
			default:
				cds_hlist_for_each_rcu(pos, &hlist) {
					if (++guard > 70)
						usim_fail("rculist-no-termination", "hlist traversal does not terminate");
					n = cds_hlist_entry(pos, struct lnode, h);
					check_payload(n);
					lor_trav_visit(t, (int) n->id);
				}
				break;
			}
		} else if (op->b % 2) {
			struct cds_list_head *pos;
			cds_list_for_each_rcu(pos, &list) {
				if (++guard > 70)
					usim_fail("rculist-no-termination", "list traversal does not terminate");
				n = cds_list_entry(pos, struct lnode, l);
				check_payload(n);
				lor_trav_visit(t, (int) n->id);
			}
		} else {
			cds_list_for_each_entry_rcu(n, &list, l) {
				if (++guard > 70)
					usim_fail("rculist-no-termination", "list traversal does not terminate");
				check_payload(n);
				lor_trav_visit(t, (int) n->id);
			}
		}
		lor_trav_end(t);
		F->read_unlock();
		return;
	}
	pthread_mutex_lock(&upd);
	inv = usim_seq();
	switch (op->kind) {
	case OP_ADD:
	case OP_ADD_TAIL:
		n = mk((int) op->v);
		if (use_hlist)
			cds_hlist_add_head_rcu(&n->h, &hlist);
		else if (op->kind == OP_ADD)
			cds_list_add_rcu(&n->l, &list);
		else
			cds_list_add_tail_rcu(&n->l, &list);
		lor_add((int) n->id, !use_hlist && op->kind == OP_ADD_TAIL, inv);
		added = (int) n->id;
		live[nlive++] = n;
		break;
	case OP_DEL:
		if (!nlive)
			break;
		i = op->a % nlive;
		n = live[i];
		live[i] = live[--nlive];
		if (use_hlist)
			cds_hlist_del_rcu(&n->h);
		else
			cds_list_del_rcu(&n->l);
		lor_del((int) n->id, inv);
		removed = (int) n->id;
		victim = n;
		break;
	case OP_REPLACE:
		if (!nlive || use_hlist)
			break;
		i = op->a % nlive;
		n = mk((int) op->v);
		cds_list_replace_rcu(&live[i]->l, &n->l);
		lor_replace((int) live[i]->id, (int) n->id, inv);
		added = (int) n->id;
		removed = (int) live[i]->id;
		victim = live[i];
		live[i] = n;
		break;
	}
	pthread_mutex_unlock(&upd);
	lor_update_done(added, removed);
	if (victim)
		retire(victim);	/* freed only a grace period after its removal */
}

static void *l_thread(void *arg)
{
	struct script *s = arg;
	int me = (int) (s - scripts), i;

	usim_thread_name("script%d", me);
	if (!F->is_bp)
		F->register_thread();
	if (F->is_qsbr)
		F->thread_offline();
	for (i = 0; i < s->nops; i++) {
		struct op *op = &s->ops[i];
		if (op->skip)
			continue;
		usim_set_op("%d.%d %s", me, i, opname[op->kind]);
		if (F->is_qsbr)
			F->thread_online();
		op_stall_begin(op);
		do_op(me, op);
		op_stall_end();
		if (F->is_qsbr)
			F->thread_offline();
	}
	usim_quiet_vote();
	if (!F->is_bp)
		F->unregister_thread();
	return NULL;
}

void scen_rculist(void)
{
	int t, i, voters = 0, id = 0, pre;

	no_faults();
	F = choose_flavor(0xf);
	choose_rcu_knobs(0);
	use_hlist = (int) usim_param("hlist", rnd(3) == 0);
	nthreads = (int) usim_param("nthreads", 2 + rnd(3));
	pre = (int) usim_param("preinserted", rnd(4));
	usim_describe("{\"flavor\":\"%s\",\"kind\":\"%s\",\"preinserted\":%d,\"threads\":[", F->name,
		use_hlist ? "cds_hlist" : "cds_list", pre);
	CDS_INIT_HLIST_HEAD(&hlist);
	for (i = 0; i < pre; i++) {
		struct lnode *n = mk(id++);
		uint64_t inv = usim_seq();
		if (use_hlist)
			cds_hlist_add_head_rcu(&n->h, &hlist);
		else
			cds_list_add_tail_rcu(&n->l, &list);
		lor_add((int) n->id, !use_hlist, inv);
		lor_update_done((int) n->id, -1);
		live[nlive++] = n;
	}
	for (t = 0; t < nthreads; t++) {
		struct script *s = &scripts[t];
		int updater = t < 2 ? (int) rnd(2) : 0;
		if (t == 0)
			updater = 1;
		s->nops = 1 + rnd(usim_tier() ? 9 : 6);
		usim_describe("%s[", t ? "," : "");
		for (i = 0; i < s->nops; i++) {
			struct op *op = &s->ops[i];
			uint32_t r = rnd(100);
			op->a = rnd(16);
			op->b = rnd(6);
			op_stall_gen(op, 4, 10);
			if (!updater || r < 25) op->kind = OP_TRAVERSE;
			else if (r < 45) op->kind = OP_ADD;
			else if (r < 60) op->kind = OP_ADD_TAIL;
			else if (r < 82) op->kind = OP_DEL;
			else op->kind = OP_REPLACE;
			if (op->kind == OP_ADD || op->kind == OP_ADD_TAIL || op->kind == OP_REPLACE) {
				if (id >= 60)
					op->kind = OP_TRAVERSE;
				else
					op->v = id++;
			}
			usim_describe("%s\"%s\"", i ? "," : "", opname[op->kind]);
		}
		usim_describe("]");
	}
	usim_describe("]}");
	script_apply_skips(scripts, nthreads);
	for (t = 0; t < nthreads; t++)
		if (!scripts[t].skip)
			voters++;
	usim_quiet_expect(voters);
	for (t = 0; t < nthreads; t++)
		if (!scripts[t].skip)
			pthread_create(&scripts[t].th, NULL, l_thread, &scripts[t]);
	for (t = 0; t < nthreads; t++)
		if (!scripts[t].skip)
			pthread_join(scripts[t].th, NULL);
	/* final traversal at quiescence must equal the model */
	{
		struct op fin = { .kind = OP_TRAVERSE };
		if (!F->is_bp)
			F->register_thread();
		do_op(-1, &fin);
		F->barrier();
		if (!F->is_bp)
			F->unregister_thread();
	}
	lor_check();
	usim_mark_nontrivial();
}
