#include "oracle.h"
#include "../usim/usim.h"
#include <string.h>

#define MAXCS 4096
#define MAXGP 2048

struct cs { uint64_t begin, end; int who; };
struct gp { uint64_t call, done; int who; };

static struct cs cs[MAXCS];
static struct gp gp[MAXGP];
static int ncs, ngp, noverlap;

/* every run is a fresh process forked from the zygote: state starts zeroed */
void orc_reset(void) { ncs = ngp = noverlap = 0; }

int orc_cs_begin(int who)
{
	if (ncs >= MAXCS) {
		/* a run that loops (it will hit the liveness bound): stop recording, never a machinery error */
		usim_probe("oracle.cs_table_saturated");
		return -1;
	}
	cs[ncs].begin = usim_seq();
	cs[ncs].end = 0;
	cs[ncs].who = who;
	return ncs++;
}

void orc_cs_end(int id)
{
	if (id < 0)
		return;
	cs[id].end = usim_seq();
}

int orc_gp_call(int who)
{
	if (ngp >= MAXGP) {
		usim_probe("oracle.gp_table_saturated");
		return -1;
	}
	gp[ngp].call = usim_seq();
	gp[ngp].done = 0;
	gp[ngp].who = who;
	return ngp++;
}

void orc_gp_done(int id, const char *what)
{
	uint64_t now = usim_seq();
	int i, ov = 0;

	if (id < 0)
		return;
	gp[id].done = now;
	for (i = 0; i < ncs; i++) {
		if (cs[i].begin < gp[id].call) {
			if (cs[i].end == 0 || cs[i].end > now)
				usim_fail("gp-interval",
					"%s by thread %d (called at #%lu, completed at #%lu) did not wait for the read-side critical section of reader %d that began at #%lu and %s",
					what, gp[id].who, (unsigned long) gp[id].call, (unsigned long) now,
					cs[i].who, (unsigned long) cs[i].begin,
					cs[i].end ? "ended later" : "is still open");
			if (cs[i].end > gp[id].call)
				ov = 1;
		}
	}
	if (ov) {
		noverlap++;
		usim_mark_nontrivial();
	}
}

/* forked child: sections of threads that do not exist any more are over */
void orc_forget_open_sections(void)
{
	int i;
	uint64_t now = usim_seq();
	for (i = 0; i < ncs; i++)
		if (!cs[i].end)
			cs[i].end = now;
}

int orc_overlaps(void) { return noverlap; }
int orc_ncs(void) { return ncs; }
int orc_ngp(void) { return ngp; }

/* ---------------------------------------------------------------- callbacks */
#define MAXCB 2048
#define MAXBAR 256
struct cb { int gp; uint64_t called, start, end; int count, who, maybe_lost; };
static struct cb cbs[MAXCB];
static int ncb;
static struct { uint64_t enter; int who; } bars[MAXBAR];
static int nbar;

int orc_cb_new(int who)
{
	if (ncb >= MAXCB)
		usim_bug("oracle: too many callbacks");
	memset(&cbs[ncb], 0, sizeof(cbs[0]));
	cbs[ncb].who = who;
	cbs[ncb].gp = orc_gp_call(who);
	return ncb++;
}

void orc_cb_called(int cb) { cbs[cb].called = usim_seq(); }

void orc_cb_start(int cb, const char *what)
{
	if (cb < 0 || cb >= ncb)
		usim_fail("callback-wrong-head", "%s invoked with an rcu_head that was never registered (id %d)", what, cb);
	if (++cbs[cb].count > 1)
		usim_fail("callback-twice", "%s #%d (queued by thread %d) invoked %d times", what, cb, cbs[cb].who, cbs[cb].count);
	cbs[cb].start = usim_seq();
	orc_gp_done(cbs[cb].gp, what);
}

void orc_cb_end(int cb) { cbs[cb].end = usim_seq(); }

int orc_barrier_enter(int who)
{
	if (nbar >= MAXBAR)
		usim_bug("oracle: too many barriers");
	bars[nbar].who = who;
	bars[nbar].enter = usim_seq();
	return nbar++;
}

void orc_barrier_return(int b)
{
	uint64_t now = usim_seq();
	int i, covered = 0;
	for (i = 0; i < ncb; i++) {
		if (cbs[i].called && cbs[i].called < bars[b].enter) {
			if (!cbs[i].end || cbs[i].end > now)
				usim_fail("barrier-missed-callback",
					"rcu_barrier() by thread %d (entered at #%lu, returned at #%lu) returned although callback #%d, whose call_rcu() by thread %d had returned at #%lu, has %s",
					bars[b].who, (unsigned long) bars[b].enter, (unsigned long) now, i, cbs[i].who,
					(unsigned long) cbs[i].called, cbs[i].start ? "not finished" : "not run");
			if (cbs[i].end > bars[b].enter)
				covered = 1;
		}
	}
	if (covered)
		usim_mark_nontrivial();
}

/* in a forked child: a call_rcu() of another thread that had not returned at fork() time may or may not have queued its callback */
void orc_cb_forked_child(void)
{
	int i;
	for (i = 0; i < ncb; i++)
		if (!cbs[i].called)
			cbs[i].maybe_lost = 1;
}

void orc_cb_final_check(const char *what)
{
	int i;
	for (i = 0; i < ncb; i++)
		if (cbs[i].count != 1 && !(cbs[i].maybe_lost && cbs[i].count == 0))
			usim_fail(cbs[i].count ? "callback-twice" : "callback-lost",
				"%s: callback #%d queued by thread %d (call_rcu %s) ran %d times",
				what, i, cbs[i].who, cbs[i].called ? "returned" : "did not return", cbs[i].count);
}

int orc_ncb(void) { return ncb; }
int orc_cb_count(int cb) { return cbs[cb].count; }


/* ---------------------------------------------------------------- defer_rcu */
#define MAXDT 8
#define MAXDC 1024
struct dcall { int fn; void *arg; int gp; uint64_t queued, invoked, finished; };
static int dlast_t = -1, dlast_i = -1;
static struct dcall dc[MAXDT][MAXDC];
static int dn[MAXDT], dnext[MAXDT];
static struct { uint64_t seq; } dmarks[512];
static int ndmarks;

void orc_defer_queue(int t, int fn, void *arg)
{
	struct dcall *c;
	if (t < 0 || t >= MAXDT || dn[t] >= MAXDC)
		usim_bug("oracle: too many deferred calls");
	c = &dc[t][dn[t]];
	usim_trace("defer_rcu(fn%d, %p) #%d of thread %d", fn, arg, dn[t], t);
	c->fn = fn;
	c->arg = arg;
	c->queued = 0;
	c->invoked = 0;
	c->finished = 0;
	c->gp = orc_gp_call(t);
	dn[t]++;
}

void orc_defer_queued(int t)
{
	dc[t][dn[t] - 1].queued = usim_seq();
}

void orc_defer_invoked(int fn, void *arg)
{
	int t, best = -1;
	usim_trace("deferred function fn%d(%p) invoked", fn, arg);
	/* function index = thread * 8 + k: the queue is identified by the function */
	t = fn / 8;
	if (t >= 0 && t < MAXDT && dnext[t] < dn[t] &&
	    dc[t][dnext[t]].fn == fn && dc[t][dnext[t]].arg == arg)
		best = t;
	if (best < 0) {
		/* diagnose: was it queued at all, out of order, or never? */
		for (t = 0; t < MAXDT; t++) {
			int i;
			for (i = dnext[t]; i < dn[t]; i++)
				if (dc[t][i].fn == fn && dc[t][i].arg == arg)
					usim_fail("defer-order",
						"deferred call (fn%d, %p) of thread %d invoked out of order: it was queued as #%d but #%d (fn%d, %p) has not run yet",
						fn, arg, t, i, dnext[t], dc[t][dnext[t]].fn, dc[t][dnext[t]].arg);
			for (i = 0; i < dnext[t]; i++)
				if (dc[t][i].fn == fn && dc[t][i].arg == arg)
					usim_fail("defer-twice", "deferred call (fn%d, %p) of thread %d invoked again", fn, arg, t);
		}
		usim_fail("defer-wrong-args", "a deferred function was invoked as (fn%d, %p), which no thread queued", fn, arg);
	}
	dc[best][dnext[best]].invoked = usim_seq();
	dlast_t = best;
	dlast_i = dnext[best];
	orc_gp_done(dc[best][dnext[best]].gp, "deferred call");
	dnext[best]++;
}

/* end of the body of the deferred function whose orc_defer_invoked() came last in the calling thread */
void orc_defer_finished(int fn, void *arg)
{
	int t = fn / 8, i;
	(void) arg;
	if (t < 0 || t >= MAXDT)
		return;
	for (i = dnext[t] - 1; i >= 0; i--)
		if (dc[t][i].fn == fn && dc[t][i].invoked && !dc[t][i].finished) {
			dc[t][i].finished = usim_seq();
			return;
		}
}

int orc_defer_pending(int t) { return dn[t] - dnext[t]; }

int orc_defer_mark(int t)
{
	(void) t;
	if (ndmarks >= 512)
		usim_bug("oracle: too many defer marks");
	dmarks[ndmarks].seq = usim_seq();
	return ndmarks++;
}

void orc_defer_check_thread(int t, int mark, const char *what)
{
	int i;
	for (i = 0; i < dn[t]; i++)
		if (dc[t][i].queued && dc[t][i].queued < dmarks[mark].seq && !dc[t][i].finished)
			usim_fail("defer-barrier-missed",
				"%s returned although call #%d (fn%d, %p) queued by thread %d before it %s",
				what, i, dc[t][i].fn, dc[t][i].arg, t,
				dc[t][i].invoked ? "is still running (it has not returned yet)" : "has not run");
}

void orc_defer_check_all(int mark, const char *what)
{
	int t;
	for (t = 0; t < MAXDT; t++)
		orc_defer_check_thread(t, mark, what);
}

int orc_defer_total(void)
{
	int t, n = 0;
	for (t = 0; t < MAXDT; t++)
		n += dn[t];
	return n;
}

/* ---------------------------------------------------------------- hash table presence */
#define HMAXN 64
#define HMAXT 128
struct hnode_rec { int key; int known; uint64_t add_inv, add_ret, rem_inv, rem_ret; };
struct htrav { int key; uint64_t inv, ret; uint64_t visited; int nvis; int order[HMAXN]; };
static struct hnode_rec hn[HMAXN];
static struct htrav ht_[HMAXT];
static int nhtrav;

void hor_node(int id, int key)
{
	if (id < 0 || id >= HMAXN)
		usim_bug("hor: node id out of range");
	hn[id].key = key;
	hn[id].known = 1;
}

void hor_added(int id, uint64_t inv)
{
	hn[id].add_inv = inv;
	hn[id].add_ret = usim_seq();
}

void hor_removed(int id, uint64_t inv)
{
	if (hn[id].rem_ret)
		usim_fail("lfht-two-owners", "node %d was obtained by two removal/replacement calls", id);
	hn[id].rem_inv = inv;
	hn[id].rem_ret = usim_seq();
}

int hor_trav_begin(int key)
{
	if (nhtrav >= HMAXT)
		usim_bug("hor: too many traversals");
	memset(&ht_[nhtrav], 0, sizeof(ht_[0]));
	ht_[nhtrav].key = key;
	ht_[nhtrav].inv = usim_seq();
	return nhtrav++;
}

void hor_trav_visit(int t, int id)
{
	struct htrav *tr = &ht_[t];
	if (id < 0 || id >= HMAXN || !hn[id].known)
		usim_fail("lfht-traversal", "traversal returned something that is not a user node (id %d)", id);
	if (tr->visited & (1ULL << id))
		usim_fail("lfht-traversal", "%s visited node %d (key %d) twice",
			tr->key < 0 ? "full traversal" : "duplicate walk", id, hn[id].key);
	if (tr->nvis >= HMAXN)
		usim_fail("lfht-traversal", "traversal does not terminate");
	tr->visited |= 1ULL << id;
	tr->order[tr->nvis++] = id;
}

void hor_trav_end(int t) { ht_[t].ret = usim_seq(); }
void hor_trav_set_interval(int t, uint64_t inv, uint64_t ret) { ht_[t].inv = inv; ht_[t].ret = ret; }

int hor_is_present(int id) { return hn[id].known && hn[id].add_ret && !hn[id].rem_ret; }

int hor_present_count(void)
{
	int i, n = 0;
	for (i = 0; i < HMAXN; i++)
		n += hor_is_present(i);
	return n;
}

void hor_check(unsigned unique_mask)
{
	int t, i, j;
	for (t = 0; t < nhtrav; t++) {
		struct htrav *tr = &ht_[t];
		const char *what = tr->key < 0 ? "full traversal" : "duplicate walk";
		for (i = 0; i < HMAXN; i++) {
			struct hnode_rec *n = &hn[i];
			int vis = (tr->visited >> i) & 1;
			if (!n->known || (tr->key >= 0 && n->key != tr->key))
				continue;
			if (vis) {
				if (!n->add_inv || n->add_inv > tr->ret)
					usim_fail("lfht-traversal", "%s [#%lu-#%lu] visited node %d which had not been added yet",
						what, (unsigned long) tr->inv, (unsigned long) tr->ret, i);
				if (n->rem_ret && n->rem_ret < tr->inv)
					usim_fail("lfht-traversal", "%s [#%lu-#%lu] visited node %d whose removal had completed at #%lu",
						what, (unsigned long) tr->inv, (unsigned long) tr->ret, i, (unsigned long) n->rem_ret);
			} else {
				if (n->add_ret && n->add_ret < tr->inv && (!n->rem_inv || n->rem_inv > tr->ret))
					usim_fail("lfht-resident-missed",
						"%s [#%lu-#%lu] missed node %d (key %d) which was in the table for its whole duration (added by #%lu%s)",
						what, (unsigned long) tr->inv, (unsigned long) tr->ret, i, n->key,
						(unsigned long) n->add_ret, n->rem_inv ? ", removed later" : ", never removed");
			}
		}
		for (i = 0; i < tr->nvis; i++)
			for (j = i + 1; j < tr->nvis; j++) {
				int a = tr->order[i], b = tr->order[j];
				if (hn[a].key == hn[b].key && (unique_mask & (1u << hn[a].key)))
					usim_fail("lfht-duplicate-exposed",
						"%s [#%lu-#%lu] returned two nodes (%d and %d) for key %d, which is only ever inserted with add_unique/add_replace",
						what, (unsigned long) tr->inv, (unsigned long) tr->ret, a, b, hn[a].key);
			}
	}
}

/* ---------------------------------------------------------------- RCU list */
#define LMAXN 64
#define LMAXT 256
struct lrec { int known; long rank; uint64_t add_inv, add_ret, rem_inv, rem_ret; };
struct ltrav { uint64_t inv, ret; int n; int order[LMAXN + 2]; uint64_t seen; };
static struct lrec lr[LMAXN];
static struct ltrav lt[LMAXT];
static int nlt;
static long lmin_rank, lmax_rank = -1;

static void lchk(int id)
{
	if (id < 0 || id >= LMAXN)
		usim_bug("list oracle: id out of range");
}

void lor_add(int id, int at_tail, uint64_t inv)
{
	lchk(id);
	lr[id].known = 1;
	lr[id].rank = at_tail ? ++lmax_rank : --lmin_rank;
	lr[id].add_inv = inv;
	lr[id].add_ret = 0;
}

void lor_replace(int old_id, int new_id, uint64_t inv)
{
	lchk(old_id); lchk(new_id);
	lr[new_id].known = 1;
	lr[new_id].rank = lr[old_id].rank;
	lr[new_id].add_inv = inv;
	lr[new_id].add_ret = 0;
	lr[old_id].rem_inv = inv;
	lr[old_id].rem_ret = 0;
}

void lor_del(int id, uint64_t inv)
{
	lchk(id);
	lr[id].rem_inv = inv;
	lr[id].rem_ret = 0;
}

/* the update (including the release of the updater lock, a full barrier) has returned */
void lor_update_done(int added_id, int removed_id)
{
	uint64_t now = usim_seq();
	if (added_id >= 0)
		lr[added_id].add_ret = now;
	if (removed_id >= 0)
		lr[removed_id].rem_ret = now;
}

int lor_live(void)
{
	int i, n = 0;
	for (i = 0; i < LMAXN; i++)
		n += lr[i].known && !lr[i].rem_inv;
	return n;
}

int lor_trav_begin(void)
{
	if (nlt >= LMAXT)
		usim_bug("list oracle: too many traversals");
	memset(&lt[nlt], 0, sizeof(lt[0]));
	lt[nlt].inv = usim_seq();
	return nlt++;
}

void lor_trav_visit(int t, int id)
{
	struct ltrav *tr = &lt[t];
	if (id < 0 || id >= LMAXN)
		usim_fail("rculist-garbage", "traversal reached a node with a corrupted identity (%d)", id);
	if (tr->seen & (1ULL << id))
		usim_fail("rculist-visited-twice", "traversal visited node %d twice", id);
	if (tr->n > LMAXN)
		usim_fail("rculist-no-termination", "traversal visited more nodes than were ever created");
	tr->seen |= 1ULL << id;
	tr->order[tr->n++] = id;
}

void lor_trav_end(int t) { lt[t].ret = usim_seq(); }

void lor_check(void)
{
	int t, i, j;
	for (t = 0; t < nlt; t++) {
		struct ltrav *tr = &lt[t];
		long last_rank = 0;
		int have_last = 0, last_id = -1;
		for (i = 0; i < LMAXN; i++) {
			struct lrec *n = &lr[i];
			int vis = (tr->seen >> i) & 1;
			if (vis && !n->known)
				usim_fail("rculist-garbage", "traversal visited node %d which was never added", i);
			if (!n->known)
				continue;
			if (vis) {
				if (n->add_inv > tr->ret)
					usim_fail("rculist-phantom", "traversal [#%lu-#%lu] visited node %d before it was added",
						(unsigned long) tr->inv, (unsigned long) tr->ret, i);
				if (n->rem_ret && n->rem_ret < tr->inv)
					usim_fail("rculist-phantom", "traversal [#%lu-#%lu] visited node %d whose removal had completed at #%lu",
						(unsigned long) tr->inv, (unsigned long) tr->ret, i, (unsigned long) n->rem_ret);
			} else if (n->add_ret && n->add_ret < tr->inv && (!n->rem_inv || n->rem_inv > tr->ret)) {
				usim_fail("rculist-missed", "traversal [#%lu-#%lu] missed node %d which was in the list for the whole traversal",
					(unsigned long) tr->inv, (unsigned long) tr->ret, i);
			}
		}
		/* list order among nodes that were in the list for the whole traversal */
		for (j = 0; j < tr->n; j++) {
			struct lrec *n = &lr[tr->order[j]];
			if (!(n->add_ret && n->add_ret < tr->inv && (!n->rem_inv || n->rem_inv > tr->ret)))
				continue;
			if (have_last && n->rank < last_rank)
				usim_fail("rculist-order", "traversal [#%lu-#%lu] visited node %d after node %d although it precedes it in the list",
					(unsigned long) tr->inv, (unsigned long) tr->ret, tr->order[j], last_id);
			last_rank = n->rank;
			last_id = tr->order[j];
			have_last = 1;
		}
	}
}
