#include "oracle.h"
#include "../usim/usim.h"
#include <string.h>

#define MAXCS 4096
#define MAXGP 2048

struct cs { uint64_t begin, end; int who; };
struct gp { uint64_t call, done; int who; };

static struct cs cs[MAXCS];
static struct gp gp[MAXGP];
static int ncs, ngp, noverlap;

static void orc_reset_cb(void);
void orc_reset(void) { ncs = ngp = noverlap = 0; orc_reset_cb(); }

int orc_cs_begin(int who)
{
	if (ncs >= MAXCS)
		usim_bug("oracle: too many critical sections");
	cs[ncs].begin = usim_seq();
	cs[ncs].end = 0;
	cs[ncs].who = who;
	return ncs++;
}

void orc_cs_end(int id)
{
	cs[id].end = usim_seq();
}

int orc_gp_call(int who)
{
	if (ngp >= MAXGP)
		usim_bug("oracle: too many grace periods");
	gp[ngp].call = usim_seq();
	gp[ngp].done = 0;
	gp[ngp].who = who;
	return ngp++;
}

void orc_gp_done(int id, const char *what)
{
	uint64_t now = usim_seq();
	int i, ov = 0;

	gp[id].done = now;
	for (i = 0; i < ncs; i++) {
		if (cs[i].begin < gp[id].call) {
			if (cs[i].end == 0 || cs[i].end > now)
				usim_fail("gp-interval",
					"%s by thread %d (called at #%lu, completed at #%lu) did not wait for the read-side critical section of reader %d that began at #%lu and %s",
					what, gp[id].who, (unsigned long) gp[id].call, (unsigned long) now,
					cs[i].who, (unsigned long) cs[i].begin,
					cs[i].end ? "ended later" : "is still open");
			if (cs[i].end > gp[id].call)
				ov = 1;
		}
	}
	if (ov) {
		noverlap++;
		usim_mark_nontrivial();
	}
}

int orc_overlaps(void) { return noverlap; }
int orc_ncs(void) { return ncs; }
int orc_ngp(void) { return ngp; }

/* ---------------------------------------------------------------- callbacks */
#define MAXCB 2048
#define MAXBAR 256
struct cb { int gp; uint64_t called, start, end; int count, who; };
static struct cb cbs[MAXCB];
static int ncb;
static struct { uint64_t enter; int who; } bars[MAXBAR];
static int nbar;

int orc_cb_new(int who)
{
	if (ncb >= MAXCB)
		usim_bug("oracle: too many callbacks");
	memset(&cbs[ncb], 0, sizeof(cbs[0]));
	cbs[ncb].who = who;
	cbs[ncb].gp = orc_gp_call(who);
	return ncb++;
}

void orc_cb_called(int cb) { cbs[cb].called = usim_seq(); }

void orc_cb_start(int cb, const char *what)
{
	if (cb < 0 || cb >= ncb)
		usim_fail("callback-wrong-head", "%s invoked with an rcu_head that was never registered (id %d)", what, cb);
	if (++cbs[cb].count > 1)
		usim_fail("callback-twice", "%s #%d (queued by thread %d) invoked %d times", what, cb, cbs[cb].who, cbs[cb].count);
	cbs[cb].start = usim_seq();
	orc_gp_done(cbs[cb].gp, what);
}

void orc_cb_end(int cb) { cbs[cb].end = usim_seq(); }

int orc_barrier_enter(int who)
{
	if (nbar >= MAXBAR)
		usim_bug("oracle: too many barriers");
	bars[nbar].who = who;
	bars[nbar].enter = usim_seq();
	return nbar++;
}

void orc_barrier_return(int b)
{
	uint64_t now = usim_seq();
	int i, covered = 0;
	for (i = 0; i < ncb; i++) {
		if (cbs[i].called && cbs[i].called < bars[b].enter) {
			if (!cbs[i].end || cbs[i].end > now)
				usim_fail("barrier-missed-callback",
					"rcu_barrier() by thread %d (entered at #%lu, returned at #%lu) returned although callback #%d, whose call_rcu() by thread %d had returned at #%lu, has %s",
					bars[b].who, (unsigned long) bars[b].enter, (unsigned long) now, i, cbs[i].who,
					(unsigned long) cbs[i].called, cbs[i].start ? "not finished" : "not run");
			if (cbs[i].end > bars[b].enter)
				covered = 1;
		}
	}
	if (covered)
		usim_mark_nontrivial();
}

void orc_cb_final_check(const char *what)
{
	int i;
	for (i = 0; i < ncb; i++)
		if (cbs[i].count != 1)
			usim_fail(cbs[i].count ? "callback-twice" : "callback-lost",
				"%s: callback #%d queued by thread %d (call_rcu %s) ran %d times",
				what, i, cbs[i].who, cbs[i].called ? "returned" : "did not return", cbs[i].count);
}

int orc_ncb(void) { return ncb; }
int orc_cb_count(int cb) { return cbs[cb].count; }

static void orc_reset_cb(void) { ncb = 0; nbar = 0; }
