#include "oracle.h"
#include "../usim/usim.h"
#include <string.h>

#define MAXCS 4096
#define MAXGP 2048

struct cs { uint64_t begin, end; int who; };
struct gp { uint64_t call, done; int who; };

static struct cs cs[MAXCS];
static struct gp gp[MAXGP];
static int ncs, ngp, noverlap;

void orc_reset(void) { ncs = ngp = noverlap = 0; }

int orc_cs_begin(int who)
{
	if (ncs >= MAXCS)
		usim_bug("oracle: too many critical sections");
	cs[ncs].begin = usim_seq();
	cs[ncs].end = 0;
	cs[ncs].who = who;
	return ncs++;
}

void orc_cs_end(int id)
{
	cs[id].end = usim_seq();
}

int orc_gp_call(int who)
{
	if (ngp >= MAXGP)
		usim_bug("oracle: too many grace periods");
	gp[ngp].call = usim_seq();
	gp[ngp].done = 0;
	gp[ngp].who = who;
	return ngp++;
}

void orc_gp_done(int id, const char *what)
{
	uint64_t now = usim_seq();
	int i, ov = 0;

	gp[id].done = now;
	for (i = 0; i < ncs; i++) {
		if (cs[i].begin < gp[id].call) {
			if (cs[i].end == 0 || cs[i].end > now)
				usim_fail("gp-interval",
					"%s by thread %d (called at #%lu, completed at #%lu) did not wait for the read-side critical section of reader %d that began at #%lu and %s",
					what, gp[id].who, (unsigned long) gp[id].call, (unsigned long) now,
					cs[i].who, (unsigned long) cs[i].begin,
					cs[i].end ? "ended later" : "is still open");
			if (cs[i].end > gp[id].call)
				ov = 1;
		}
	}
	if (ov) {
		noverlap++;
		usim_mark_nontrivial();
	}
}

int orc_overlaps(void) { return noverlap; }
int orc_ncs(void) { return ncs; }
int orc_ngp(void) { return ngp; }
