/*
 * callrcu.c — scenarios `callrcu` (C03), `barrier` (C04), `poll` (C14):
 * call_rcu() on default / per-thread / per-CPU helpers, helper teardown with
 * pending callbacks, rcu_barrier(), grace-period polling.
 */
#include "common.h"
#include <unistd.h>
#include <urcu/uatomic.h>
#include <urcu/pointer.h>
#include <urcu/call-rcu.h>
#include <urcu/compiler.h>

enum {
	OP_READ, OP_CALL, OP_UPDATE_CALL, OP_BARRIER, OP_PT_ON, OP_PT_OFF, OP_PC_ON, OP_PC_OFF,
	OP_PC_FREE_ONE, OP_QS, OP_POLL_START, OP_POLL_CHECK, OP_SYNC, OP_NK
};
static const char *const opname[] = {
	"read", "call", "update_call", "barrier", "perthread_on", "perthread_off", "percpu_on",
	"percpu_off", "percpu_free_one", "qs", "poll_start", "poll_check", "sync"
};

#define MAGIC 0x5ca1ab1e0ddba11L

struct obj {
	long version, a, pad[2], b;
};

struct cbnode {
	struct rcu_head head;
	long magic;
	int id;
	int chain_left;
	int free_self;
	int reads;
	struct obj *obj;
};

struct pollslot {
	struct urcu_gp_poll_state h;
	int gp, used, was_true;
};

static const struct flavor_ops *F;
static struct obj *gptr;
static pthread_mutex_t upd_lock = PTHREAD_MUTEX_INITIALIZER;
static long version_ctr;
static struct script scripts[MAX_SCRIPT_THREADS];
static int nthreads, ncpus;
static int qcs[MAX_SCRIPT_THREADS + 1];
static struct call_rcu_data *pt_crdp[MAX_SCRIPT_THREADS];
static int percpu_on;
static struct pollslot polls[MAX_SCRIPT_THREADS][3];
static int mode;	/* 0 callrcu, 1 barrier, 2 poll */

HARNESS_BOOKKEEPING static void qsbr_close(int me)
{
	if (F->is_qsbr && qcs[me] >= 0) {
		orc_cs_end(qcs[me]);
		qcs[me] = -1;
	}
}

HARNESS_BOOKKEEPING static void qsbr_open(int me)
{
	if (F->is_qsbr)
		qcs[me] = orc_cs_begin(me);
}

/* qsbr: operations that wait for helper threads must be issued offline */
static void mgmt_begin(int me)
{
	if (F->is_qsbr) {
		qsbr_close(me);
		F->thread_offline();
	}
}

static void mgmt_end(int me)
{
	if (F->is_qsbr) {
		F->thread_online();
		qsbr_open(me);
	}
}

static void cb_func(struct rcu_head *h);

static void do_call(int who, int chain, struct obj *obj, int free_self)
{
	struct cbnode *n = malloc(sizeof(*n));
	int id;

	usim_mem_tag(n, "cbnode");
	n->magic = MAGIC;
	n->chain_left = chain;
	n->free_self = free_self;
	n->obj = obj;
	id = n->id = orc_cb_new(who);
	n->reads = id % 3 == 0 ? 1 + id % 4 : 0;	/* a third of the callbacks are RCU readers themselves */
	F->call_rcu(&n->head, cb_func);
	orc_cb_called(id);	/* n may already have been freed by its callback */
}

static void cb_func(struct rcu_head *h)
{
	struct cbnode *n = caa_container_of(h, struct cbnode, head);
	int id;

	if (n->magic != MAGIC)
		usim_fail("callback-wrong-head", "callback invoked with a pointer that is not the registered rcu_head");
	id = n->id;
	orc_cb_start(id, "call_rcu() callback");
	if (n->obj)
		free(n->obj);
	if (n->chain_left > 0)
		do_call(-1, n->chain_left - 1, NULL, n->chain_left & 1);
	if (n->reads) {
		/* "callbacks may take the read-side lock": the helper thread is a registered (qsbr: online) reader while it runs them */
		int cs, k;
		struct obj *p;
		long v, a, b;
		F->read_lock();
		cs = orc_cs_begin(40 + usim_tid());
		p = rcu_dereference(gptr);
		v = p->version;
		a = p->a;
		for (k = 0; k < n->reads; k++)
			usim_pause();
		b = p->b;
		if (a != v * 3 + 1 || b != v * 7 + 2)
			usim_fail("reclaimed-object-read", "a call_rcu callback reading inside a read-side section saw object version %ld with a=%ld b=%ld", v, a, b);
		orc_cs_end(cs);
		F->read_unlock();
		usim_probe("callrcu.callback_was_a_reader");
	}
	orc_cb_end(id);
	if (n->free_self)
		free(n);
}

static void do_read(int me, struct op *op)
{
	int d, cs = -1, i;
	struct obj *p;
	long v, a, b;
	int depth = F->is_qsbr ? 0 : op->a;

	for (d = 0; d < depth; d++) {
		F->read_lock();
		if (d == 0)
			cs = orc_cs_begin(me);
	}
	p = rcu_dereference(gptr);
	v = p->version;
	a = p->a;
	for (i = 0; i < op->b; i++)
		usim_pause();
	b = p->b;
	if (a != v * 3 + 1 || b != v * 7 + 2)
		usim_fail("reclaimed-object-read", "reader %d saw object version %ld with a=%ld b=%ld", me, v, a, b);
	for (d = 0; d < depth; d++) {
		if (d == depth - 1)
			orc_cs_end(cs);
		F->read_unlock();
	}
}

static void do_update_call(int me)
{
	struct obj *n = malloc(sizeof(*n)), *old;

	usim_mem_tag(n, "rcu-object");
	pthread_mutex_lock(&upd_lock);
	n->version = ++version_ctr;
	n->a = n->version * 3 + 1;
	n->b = n->version * 7 + 2;
	old = gptr;
	rcu_assign_pointer(gptr, n);
	pthread_mutex_unlock(&upd_lock);
	do_call(me, 0, old, 1);
}

static void do_barrier(int me, int want_offline)
{
	int b;
	int offline = F->is_qsbr && want_offline;

	if (offline)
		mgmt_begin(me);
	else
		qsbr_close(me);	/* rcu_barrier() takes an online qsbr caller offline itself */
	b = orc_barrier_enter(me);
	F->barrier();
	orc_barrier_return(b);
	if (offline)
		mgmt_end(me);
	else
		qsbr_open(me);
}

static void pt_off(int me)
{
	struct call_rcu_data *c = pt_crdp[me];
	if (!c)
		return;
	pt_crdp[me] = NULL;
	F->set_thread_call_rcu_data(NULL);
	mgmt_begin(me);
	F->call_rcu_data_free(c);
	mgmt_end(me);
}

static void poll_check(int me, int slot, const char *what)
{
	struct pollslot *ps = &polls[me][slot];
	int r;

	if (!ps->used)
		return;
	r = F->poll_state(ps->h);
	if (r) {
		orc_gp_done(ps->gp, what);
		ps->was_true = 1;
	} else if (ps->was_true) {
		usim_fail("poll-regressed", "poll_state_synchronize_rcu() of thread %d slot %d returned false after it had returned true", me, slot);
	}
}

static void *cr_thread(void *arg)
{
	struct script *s = arg;
	int me = (int) (s - scripts), i, k;

	usim_thread_name("script%d", me);
	if (!F->is_bp)
		F->register_thread();
	qsbr_open(me);
	for (i = 0; i < s->nops; i++) {
		struct op *op = &s->ops[i];
		if (op->skip)
			continue;
		usim_trace("op %d.%d %s", me, i, opname[op->kind]);
		op_stall_begin(op);
		switch (op->kind) {
		case OP_READ: do_read(me, op); break;
		case OP_CALL: do_call(me, op->c, NULL, op->b & 1); break;
		case OP_UPDATE_CALL: do_update_call(me); break;
		case OP_BARRIER: do_barrier(me, op->b & 1); break;
		case OP_SYNC: {
			int g;
			qsbr_close(me);
			g = orc_gp_call(me);
			F->synchronize_rcu();
			orc_gp_done(g, "synchronize_rcu()");
			qsbr_open(me);
			break;
		}
		case OP_PT_ON:
			if (!pt_crdp[me]) {
				pt_crdp[me] = F->create_call_rcu_data(op->a ? URCU_CALL_RCU_RT : 0, -1);
				F->set_thread_call_rcu_data(pt_crdp[me]);
			}
			break;
		case OP_PT_OFF: pt_off(me); break;
		case OP_PC_ON:
			if (me == 0 && !percpu_on) {
				if (F->create_all_cpu_call_rcu_data(op->a ? URCU_CALL_RCU_RT : 0))
					usim_fail("api-error", "create_all_cpu_call_rcu_data failed");
				percpu_on = 1;
			}
			break;
		case OP_PC_OFF:
			if (me == 0 && percpu_on) {
				percpu_on = 0;
				mgmt_begin(me);
				F->free_all_cpu_call_rcu_data();
				mgmt_end(me);
			}
			break;
		case OP_PC_FREE_ONE:
			if (me == 0 && percpu_on) {
				int cpu = op->a % ncpus, g;
				struct call_rcu_data *c = F->get_cpu_call_rcu_data(cpu);
				if (c) {
					F->set_cpu_call_rcu_data(cpu, NULL);
					qsbr_close(me);
					g = orc_gp_call(me);
					F->synchronize_rcu();
					orc_gp_done(g, "synchronize_rcu()");
					qsbr_open(me);
					mgmt_begin(me);
					F->call_rcu_data_free(c);
					mgmt_end(me);
				}
			}
			break;
		case OP_QS:
			if (F->is_qsbr) {
				qsbr_close(me);
				F->quiescent_state();
				qsbr_open(me);
			}
			break;
		case OP_POLL_START: {
			struct pollslot *ps = &polls[me][op->a % 3];
			if (!ps->used) {
				ps->gp = orc_gp_call(me);
				ps->h = F->start_poll();
				ps->used = 1;
				ps->was_true = 0;
			}
			break;
		}
		case OP_POLL_CHECK:
			poll_check(me, op->a % 3, "poll_state_synchronize_rcu() returning true");
			break;
		}
		op_stall_end();
	}
	/* final stage: everything this thread started must complete */
	usim_quiet_vote();
	for (k = 0; k < 3; k++) {
		struct pollslot *ps = &polls[me][k];
		while (ps->used && !ps->was_true) {
			usim_set_op("%d: polling its handle %d until poll_state_synchronize_rcu() says true", me, k);
			poll_check(me, k, "poll_state_synchronize_rcu() returning true");
			if (ps->was_true)
				break;
			mgmt_begin(me);
			usleep(2000);
			mgmt_end(me);
		}
		if (ps->used) {
			/* once true, stays true */
			poll_check(me, k, "poll_state_synchronize_rcu() returning true");
		}
	}
	pt_off(me);
	if (me == 0 && percpu_on) {
		percpu_on = 0;
		mgmt_begin(me);
		F->free_all_cpu_call_rcu_data();
		mgmt_end(me);
	}
	qsbr_close(me);
	if (!F->is_bp)
		F->unregister_thread();
	return NULL;
}

static void gen(void)
{
	int t, i, maxthr = usim_tier() ? 5 : 4, maxops = usim_tier() ? 8 : 6;
	static const int cpus[] = { 1, 2, 3, 4 };

	ncpus = (int) usim_param("ncpus", cpus[rnd(4)]);
	usim_set_ncpus(ncpus);
	nthreads = (int) usim_param("nthreads", 1 + rnd(maxthr));
	usim_describe("{\"flavor\":\"%s\",\"ncpus\":%d,", F->name, ncpus);
	choose_rcu_knobs(1);
	usim_describe("\"threads\":[");
	for (t = 0; t < nthreads; t++) {
		struct script *s = &scripts[t];
		s->nops = 1 + rnd(maxops);
		usim_describe("%s[", t ? "," : "");
		for (i = 0; i < s->nops; i++) {
			struct op *op = &s->ops[i];
			uint32_t r = rnd(100);
			if (mode == 2) {	/* poll */
				if (r < 30) op->kind = OP_POLL_START;
				else if (r < 55) op->kind = OP_POLL_CHECK;
				else if (r < 80) op->kind = OP_READ;
				else if (r < 86) op->kind = OP_SYNC;
				else if (r < 92) op->kind = OP_UPDATE_CALL;
				else if (r < 96) op->kind = OP_PT_ON;
				else op->kind = OP_QS;
			} else {
				int bar = mode == 1 ? 22 : 6;
				if (r < 24) op->kind = OP_READ;
				else if (r < 44) op->kind = OP_CALL;
				else if (r < 56) op->kind = OP_UPDATE_CALL;
				else if (r < 56 + (uint32_t) bar) op->kind = OP_BARRIER;
				else if (r < 70 + (uint32_t) bar / 2) op->kind = OP_PT_ON;
				else if (r < 78 + (uint32_t) bar / 2) op->kind = OP_PT_OFF;
				else if (r < 84 + (uint32_t) bar / 2) op->kind = t == 0 ? OP_PC_ON : OP_CALL;
				else if (r < 88 + (uint32_t) bar / 2) op->kind = t == 0 ? OP_PC_OFF : OP_READ;
				else if (r < 92 + (uint32_t) bar / 2) op->kind = t == 0 ? OP_PC_FREE_ONE : OP_CALL;
				else op->kind = F->is_qsbr ? OP_QS : OP_CALL;
			}
			op->a = rnd(6);
			if (op->kind == OP_READ)
				op->a = 1 + rnd(3);
			if (op->kind == OP_PT_ON || op->kind == OP_PC_ON)
				op->a = rnd(3) == 0;	/* RT (polling) helper */
			op->b = rnd(4);
			op->c = rnd(4) == 0 ? 1 + rnd(2) : 0;	/* chain depth */
			op_stall_gen(op, 5, 16);
			usim_describe("%s\"%s", i ? "," : "", opname[op->kind]);
			if (op->kind == OP_CALL && op->c)
				usim_describe("(chain%d)", op->c);
			if ((op->kind == OP_PT_ON || op->kind == OP_PC_ON) && op->a)
				usim_describe("(rt)");
			usim_describe("\"");
		}
		usim_describe("]");
	}
	usim_describe("]");
	/*
	 * Per-CPU helper life cycle in focus (a quarter of the callrcu/barrier runs):
	 * thread 0 creates the per-CPU helpers first and tears them down (all at
	 * once, or one CPU the documented way) somewhere later, while the other
	 * threads mostly call_rcu().
	 */
	if (mode != 2 && nthreads >= 2 && usim_param("percpu_focus", rnd(4) == 0)) {
		struct script *s0 = &scripts[0];
		if (s0->nops < 2)
			s0->nops = 2;
		s0->ops[0].kind = OP_PC_ON;
		s0->ops[0].a = rnd(3) == 0;
		i = 1 + (int) rnd(s0->nops - 1);
		s0->ops[i].kind = rnd(2) ? OP_PC_OFF : OP_PC_FREE_ONE;
		s0->ops[i].a = rnd(6);
		for (t = 1; t < nthreads; t++)
			for (i = 0; i < scripts[t].nops; i++)
				if (rnd(100) < 50) {
					scripts[t].ops[i].kind = OP_CALL;
					scripts[t].ops[i].c = 0;
				}
		usim_describe(",\"percpu_focus\":1");
	}
	/*
	 * Per-thread helper torn down with callbacks still queued while others run
	 * rcu_barrier() (a quarter of the barrier runs, some callrcu runs).
	 */
	if (mode != 2 && nthreads >= 2 && usim_param("perthread_focus", rnd(mode == 1 ? 4 : 8) == 0)) {
		int v = (int) rnd(nthreads), k = 0;
		struct script *sv = &scripts[v];
		if (sv->nops < 3)
			sv->nops = 3;
		sv->ops[k].kind = OP_PT_ON;
		sv->ops[k++].a = rnd(3) == 0;
		while (k < sv->nops - 1 && k < 4) {
			sv->ops[k].kind = rnd(3) ? OP_CALL : OP_UPDATE_CALL;
			sv->ops[k].c = rnd(4) == 0;
			sv->ops[k++].b = rnd(4);
		}
		sv->ops[k].kind = OP_PT_OFF;
		for (t = 0; t < nthreads; t++)
			for (i = 0; t != v && i < scripts[t].nops; i++)
				if (rnd(100) < 45) {
					scripts[t].ops[i].kind = OP_BARRIER;
					scripts[t].ops[i].b = rnd(4);
				}
		usim_describe(",\"perthread_focus\":%d", v);
	}
	usim_describe("}");
	script_apply_skips(scripts, nthreads);
}

static void run_common(int m)
{
	int t, voters = 0, i;

	mode = m;
	orc_reset();
	F = choose_flavor(0xf);
	choose_futex_faults(1);
	usim_fault_enable("getcpu_migrate", rnd(2));
	usim_fault_enable("getcpu_fail", rnd(4) == 0);
	gen();
	gptr = malloc(sizeof(*gptr));
	usim_mem_tag(gptr, "rcu-object");
	gptr->version = 0;
	gptr->a = 1;
	gptr->b = 2;
	for (t = 0; t <= nthreads; t++)
		qcs[t] = -1;
	for (t = 0; t < nthreads; t++)
		if (!scripts[t].skip)
			voters++;
	usim_quiet_expect(voters);
	for (t = 0; t < nthreads; t++)
		if (!scripts[t].skip)
			pthread_create(&scripts[t].th, NULL, cr_thread, &scripts[t]);
	for (t = 0; t < nthreads; t++)
		if (!scripts[t].skip)
			pthread_join(scripts[t].th, NULL);
	/* chains are at most 2 deep: three barriers flush everything */
	for (i = 0; i < 3; i++) {
		int b = orc_barrier_enter(99);
		F->barrier();
		orc_barrier_return(b);
	}
	orc_cb_final_check("after the final rcu_barrier() calls");
	if (orc_ncb())
		usim_probe("callrcu.run_with_callbacks");
}

void scen_callrcu(void) { run_common(0); }
void scen_barrier(void) { run_common(1); }
void scen_poll(void) { run_common(2); }
