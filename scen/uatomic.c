/*
 * uatomic.c — scenario `uatomic` (C20), compiled twice: against the default
 * (x86 asm) implementation and with -DCONFIG_RCU_USE_ATOMIC_BUILTINS.
 *
 *  (a) conservation: concurrent RMW on 1/2/4/8-byte cells packed next to
 *      bytes owned by other threads: no lost update, neighbours intact
 *  (b) ordering contracts expressed in C, under simulated x86-TSO:
 *      store-buffering litmus with every documented full-barrier operation
 *      between the store and the load (forbidden outcome must never appear;
 *      without a barrier it must appear — probe), message-passing litmus
 *  (c) sequential value semantics against a plain C reference
 *
 * What a serialising simulator cannot see (atomicity and fencing of a single
 * machine instruction) is an axiom here, see DESIGN.md section 4.
 */
#include "common.h"
#include <urcu/uatomic.h>
#include <urcu/arch.h>

#if defined(UAT_BUILTINS)
#define UAT(x) uatb_##x
#define IMPL "builtins"
#elif defined(UAT_C99)
/* the default x86 implementation as a pre-C11 translation unit sees it (-std=gnu99: no __atomic loads/stores, explicit fences) */
#define UAT(x) uatc_##x
#define IMPL "x86, compiled as gnu99"
#else
#define UAT(x) uatx_##x
#define IMPL "x86"
#endif

/* ------------------------------------------------------------------ (a) conservation */

struct cells {
	/* every cell is surrounded by bytes that other threads own and rewrite */
	unsigned char pad0[3];
	unsigned char c1;		/* offset 3 */
	unsigned char own0[2];
	unsigned short c2;		/* offset 6 */
	unsigned char own1[4];
	unsigned int c4;		/* offset 12 */
	unsigned long c8;		/* offset 16 */
	unsigned char own2[8];
	unsigned long flags;		/* bit per thread via or/and */
	unsigned long token;		/* xchg token cell */
} __attribute__((aligned(16)));

/* shared by the compiled variants; defined in the default one */
#if defined(UAT_BUILTINS) || defined(UAT_C99)
extern struct cells *uat_cells;
extern long uat_tok_collected[MAX_SCRIPT_THREADS][16];
extern int uat_ntok[MAX_SCRIPT_THREADS];
#else
struct cells *uat_cells;
long uat_tok_collected[MAX_SCRIPT_THREADS][16];
int uat_ntok[MAX_SCRIPT_THREADS];
#endif
#define C uat_cells
#define tok_collected uat_tok_collected
#define ntok uat_ntok

enum { A_ADD, A_SUB, A_INC, A_DEC, A_ADD_RETURN, A_SUB_RETURN, A_CMPXCHG_INC, A_OR_AND, A_XCHG_TOKEN, A_OWN_BYTES, A_NK };

static void UAT(conserve_op)(int me, struct op *op)
{
	long v = op->v;
	switch (op->kind) {
	case A_ADD:
		switch (op->a) {
		case 0: uatomic_add(&C->c1, (unsigned char) v); break;
		case 1: uatomic_add(&C->c2, (unsigned short) v); break;
		case 2: uatomic_add(&C->c4, (unsigned int) v); break;
		default: uatomic_add(&C->c8, (unsigned long) v); break;
		}
		break;
	case A_SUB:
		switch (op->a) {
		case 0: uatomic_sub(&C->c1, (unsigned char) v); break;
		case 1: uatomic_sub(&C->c2, (unsigned short) v); break;
		case 2: uatomic_sub(&C->c4, (unsigned int) v); break;
		default: uatomic_sub(&C->c8, (unsigned long) v); break;
		}
		break;
	case A_INC:
		switch (op->a) {
		case 0: uatomic_inc(&C->c1); break;
		case 1: uatomic_inc(&C->c2); break;
		case 2: uatomic_inc(&C->c4); break;
		default: uatomic_inc(&C->c8); break;
		}
		break;
	case A_DEC:
		switch (op->a) {
		case 0: uatomic_dec(&C->c1); break;
		case 1: uatomic_dec(&C->c2); break;
		case 2: uatomic_dec(&C->c4); break;
		default: uatomic_dec(&C->c8); break;
		}
		break;
	case A_ADD_RETURN:
		switch (op->a) {
		case 0: (void) uatomic_add_return(&C->c1, (unsigned char) v); break;
		case 1: (void) uatomic_add_return(&C->c2, (unsigned short) v); break;
		case 2: (void) uatomic_add_return(&C->c4, (unsigned int) v); break;
		default: (void) uatomic_add_return(&C->c8, (unsigned long) v); break;
		}
		break;
	case A_SUB_RETURN:
		switch (op->a) {
		case 0: (void) uatomic_sub_return(&C->c1, (unsigned char) v); break;
		case 1: (void) uatomic_sub_return(&C->c2, (unsigned short) v); break;
		case 2: (void) uatomic_sub_return(&C->c4, (unsigned int) v); break;
		default: (void) uatomic_sub_return(&C->c8, (unsigned long) v); break;
		}
		break;
	case A_CMPXCHG_INC:
		switch (op->a) {
		case 0: { unsigned char o; do { o = uatomic_read(&C->c1); } while (uatomic_cmpxchg(&C->c1, o, (unsigned char) (o + 1)) != o); break; }
		case 1: { unsigned short o; do { o = uatomic_read(&C->c2); } while (uatomic_cmpxchg(&C->c2, o, (unsigned short) (o + 1)) != o); break; }
		case 2: { unsigned int o; do { o = uatomic_read(&C->c4); } while (uatomic_cmpxchg(&C->c4, o, o + 1) != o); break; }
		default: { unsigned long o; do { o = uatomic_read(&C->c8); } while (uatomic_cmpxchg(&C->c8, o, o + 1) != o); break; }
		}
		break;
	case A_OR_AND:
		/* each thread owns bits me and me+8 */
		uatomic_or(&C->flags, 1UL << me);
		uatomic_or(&C->flags, 1UL << (me + 8));
		uatomic_and(&C->flags, ~(1UL << me));
		break;
	case A_XCHG_TOKEN:
		if (ntok[me] < 16) {
			int k = ntok[me];
			tok_collected[me][k] = (long) uatomic_xchg(&C->token, (unsigned long) (1000 + me * 100 + k));
			ntok[me] = k + 1;
		}
		break;
	case A_OWN_BYTES:
		/* plain-ish accesses to the neighbouring bytes this thread owns */
		if (me == 0) { uatomic_set(&C->pad0[2], (unsigned char) v); uatomic_set(&C->own0[0], (unsigned char) v); }
		else if (me == 1) { uatomic_set(&C->own0[1], (unsigned char) v); uatomic_set(&C->own1[0], (unsigned char) v); }
		else if (me == 2) { uatomic_set(&C->own1[3], (unsigned char) v); uatomic_set(&C->own2[0], (unsigned char) v); }
		else { uatomic_set(&C->own2[7], (unsigned char) v); uatomic_set(&C->pad0[0], (unsigned char) v); }
		break;
	}
}

/* ------------------------------------------------------------------ (b) litmus */

enum {
	L_NONE, L_SMP_MB, L_STORE_SEQ_CST_FENCE, L_XCHG, L_CMPXCHG_OK, L_CMPXCHG_FAIL_THEN_MB, L_ADD_RETURN,
	L_SUB_RETURN, L_STORE_SEQ_CST,
	/* the operation itself is the (fully ordered) read of the other variable; operand a literal 0 */
	L_ADD_RETURN_ZERO_READ, L_SUB_RETURN_ZERO_READ, L_CMPXCHG_ZERO_READ, L_ADD_RETURN_ZERO_DUMMY, L_NK
};

static unsigned long lx, ly, ldummy[2];

static unsigned long UAT(sb_side)(unsigned long *mine, unsigned long *other, int variant, int side)
{
	switch (variant) {
	case L_NONE:
		uatomic_set(mine, 1);
		break;
	case L_SMP_MB:
		uatomic_set(mine, 1);
		cmm_smp_mb();
		break;
	case L_STORE_SEQ_CST_FENCE:
		uatomic_store(mine, 1, CMM_SEQ_CST_FENCE);
		break;
	case L_STORE_SEQ_CST:
		uatomic_store(mine, 1, CMM_SEQ_CST);
		break;
	case L_XCHG:
		uatomic_set(mine, 1);
		(void) uatomic_xchg(&ldummy[side], 7);
		break;
	case L_CMPXCHG_OK:
		uatomic_set(mine, 1);
		(void) uatomic_cmpxchg(&ldummy[side], 0, 9);
		break;
	case L_CMPXCHG_FAIL_THEN_MB:
		uatomic_set(mine, 1);
		(void) uatomic_cmpxchg(&ldummy[side], 12345, 9);	/* fails: only success is documented as a barrier */
		cmm_smp_mb();
		break;
	case L_ADD_RETURN:
		uatomic_set(mine, 1);
		(void) uatomic_add_return(&ldummy[side], 1);
		break;
	case L_SUB_RETURN:
		uatomic_set(mine, 1);
		(void) uatomic_sub_return(&ldummy[side], 1);
		break;
	case L_ADD_RETURN_ZERO_READ:
		uatomic_set(mine, 1);
		return uatomic_add_return(other, 0);
	case L_SUB_RETURN_ZERO_READ:
		uatomic_set(mine, 1);
		return uatomic_sub_return(other, 0);
	case L_CMPXCHG_ZERO_READ:
		uatomic_set(mine, 1);
		return uatomic_cmpxchg(other, 0, 0);	/* reading 0 means it succeeded: a full barrier */
	case L_ADD_RETURN_ZERO_DUMMY:
		uatomic_set(mine, 1);
		(void) uatomic_add_return(&ldummy[side], 0);
		break;
	}
	return uatomic_read(other);
}

/* ------------------------------------------------------------------ (c) sequential semantics */

#define CHECK_TYPE(T, name)									\
static void UAT(seq_##name)(void)								\
{												\
	struct { T guard0; T cell; T guard1; } box;						\
	static const long pats[] = { 0, 1, -1, 2, 127, 128, 255, 256, 32767, 32768, 65535, 65536,	\
		2147483647L, 2147483648L, 4294967295L, 4294967296L, -128, -129, -32768, -32769,		\
		0x7fffffffffffffffL, (long) 0x8000000000000000UL, 0x5555555555555555L };		\
	int n = sizeof(pats) / sizeof(pats[0]), i;						\
	T g0 = (T) 0x5a5a5a5a5a5a5a5aUL, g1 = (T) 0xa5a5a5a5a5a5a5a5UL;			\
	T model, r = 0, rr, a, b;								\
	int evals = 0;										\
	const char *detail = "";								\
	box.guard0 = g0; box.guard1 = g1;							\
	box.cell = model = (T) pats[rnd(n)];							\
	for (i = 0; i < 24; i++) {								\
		a = (T) pats[rnd(n)]; b = (T) pats[rnd(n)];					\
		switch (rnd(12)) {								\
		case 0: uatomic_set(&box.cell, a); model = a; break;				\
		case 1: r = uatomic_read(&box.cell);						\
			if (r != model) goto bad; break;					\
		case 2: r = uatomic_xchg(&box.cell, a); rr = model; model = a;			\
			if (r != rr) goto bad; break;						\
		case 3: r = uatomic_cmpxchg(&box.cell, a, b); rr = model;			\
			if (model == a) model = b;						\
			if (r != rr) goto bad; break;						\
		case 4: r = uatomic_cmpxchg(&box.cell, model, b); rr = model; model = b;	\
			if (r != rr) goto bad; break;						\
		case 5: model = (T) (model + a); evals = 0;					\
			/* the value of the expression itself, not a copy converted to T */	\
			if (uatomic_add_return(&box.cell, (evals++, a)) != model || evals != 1)	\
				{ r = box.cell; detail = " [the value of the uatomic_add_return() expression itself differs from the reference, or its operand was evaluated more than once]"; goto bad; }	\
			break;									\
		case 6: model = (T) (model - a); evals = 0;					\
			if (uatomic_sub_return(&box.cell, (evals++, a)) != model || evals != 1)	\
				{ r = box.cell; detail = " [the value of the uatomic_sub_return() expression itself differs from the reference, or its operand was evaluated more than once]"; goto bad; }	\
			break;									\
		case 7: uatomic_add(&box.cell, a); model = (T) (model + a); break;		\
		case 8: uatomic_sub(&box.cell, a); model = (T) (model - a); break;		\
		case 9: uatomic_inc(&box.cell); model = (T) (model + 1); break;			\
		case 10: uatomic_dec(&box.cell); model = (T) (model - 1); break;		\
		default:									\
			if (rnd(2)) { uatomic_and(&box.cell, a); model = (T) (model & a); }	\
			else { uatomic_or(&box.cell, a); model = (T) (model | a); }		\
			break;									\
		}										\
		if (box.cell != model || box.guard0 != g0 || box.guard1 != g1)			\
			goto bad;								\
	}											\
	return;											\
bad:												\
	usim_fail("uatomic-value", "uatomic (%s, %s) disagrees with the sequential reference after step %d: cell=%lld model=%lld returned=%lld guards %s%s",	\
		IMPL, #name, i, (long long) box.cell, (long long) model, (long long) r,		\
		(box.guard0 != g0 || box.guard1 != g1) ? "CLOBBERED" : "intact", detail);	\
}

CHECK_TYPE(signed char, schar)
CHECK_TYPE(unsigned char, uchar)
CHECK_TYPE(short, sshort)
CHECK_TYPE(unsigned short, ushort)
CHECK_TYPE(int, sint)
CHECK_TYPE(unsigned int, uint)
CHECK_TYPE(long, slong)
CHECK_TYPE(unsigned long, ulong)

/*
 * Operand whose static type differs from the target's: the documented
 * semantics convert the operand to the type of *addr as C does (sign-extend a
 * signed operand, zero-extend an unsigned one, truncate a wider one).
 */
#define CHECK_MIXED(T, name, V, vname)								\
static void UAT(mix_##name##_##vname)(void)							\
{												\
	struct { T guard0; T cell; T guard1; } box;						\
	static const long pats[] = { 0, 1, -1, 2, 127, 128, 255, 256, 32767, 32768, 65535, 65536,	\
		2147483647L, 2147483648L, 4294967295L, 4294967296L, -128, -129, -32768, -32769,		\
		0x7fffffffffffffffL, (long) 0x8000000000000000UL, 0x5555555555555555L, 1024, 4096 };	\
	int n = sizeof(pats) / sizeof(pats[0]), i, what = 0;					\
	T g0 = (T) 0x5a5a5a5a5a5a5a5aUL, g1 = (T) 0xa5a5a5a5a5a5a5a5UL;			\
	T model, r = 0, rr;									\
	V a = 0, b;										\
	box.guard0 = g0; box.guard1 = g1;							\
	box.cell = model = (T) pats[rnd(n)];							\
	for (i = 0; i < 10; i++) {								\
		a = (V) pats[rnd(n)]; b = (V) pats[rnd(n)];					\
		switch (what = rnd(10)) {							\
		case 0: uatomic_set(&box.cell, a); model = (T) a; break;			\
		case 1: r = uatomic_xchg(&box.cell, a); rr = model; model = (T) a;		\
			if (r != rr) goto bad; break;						\
		case 2: r = uatomic_cmpxchg(&box.cell, (T) a, b); rr = model;			\
			if (model == (T) a) model = (T) b;					\
			if (r != rr) goto bad; break;						\
		case 3: r = uatomic_cmpxchg(&box.cell, model, b); rr = model; model = (T) b;	\
			if (r != rr) goto bad; break;						\
		case 4: model = (T) (model + (T) a);						\
			if (uatomic_add_return(&box.cell, a) != model) { r = box.cell; goto bad; }	\
			break;									\
		case 5: model = (T) (model - (T) a);						\
			if (uatomic_sub_return(&box.cell, a) != model) { r = box.cell; goto bad; }	\
			break;									\
		case 6: uatomic_add(&box.cell, a); model = (T) (model + (T) a); break;		\
		case 7: uatomic_sub(&box.cell, a); model = (T) (model - (T) a); break;		\
		case 8: uatomic_and(&box.cell, a); model = (T) (model & (T) a); break;		\
		default: uatomic_or(&box.cell, a); model = (T) (model | (T) a); break;		\
		}										\
		if (box.cell != model || box.guard0 != g0 || box.guard1 != g1)			\
			goto bad;								\
	}											\
	return;											\
bad:												\
	usim_fail("uatomic-value", "uatomic (%s, target %s, operand of type %s = %lld, op %d) disagrees with the sequential reference: cell=%lld model=%lld returned=%lld guards %s",	\
		IMPL, #name, #vname, (long long) a, what, (long long) box.cell, (long long) model, (long long) r,	\
		(box.guard0 != g0 || box.guard1 != g1) ? "CLOBBERED" : "intact");		\
}

#define MIX_ROW(T, name)				\
	CHECK_MIXED(T, name, signed char, schar)	\
	CHECK_MIXED(T, name, unsigned char, uchar)	\
	CHECK_MIXED(T, name, short, sshort)		\
	CHECK_MIXED(T, name, unsigned short, ushort)	\
	CHECK_MIXED(T, name, int, sint)			\
	CHECK_MIXED(T, name, unsigned int, uint)	\
	CHECK_MIXED(T, name, long, slong)		\
	CHECK_MIXED(T, name, unsigned long, ulong)

MIX_ROW(signed char, schar)
MIX_ROW(unsigned char, uchar)
MIX_ROW(short, sshort)
MIX_ROW(unsigned short, ushort)
MIX_ROW(int, sint)
MIX_ROW(unsigned int, uint)
MIX_ROW(long, slong)
MIX_ROW(unsigned long, ulong)

#define MIX_CALL_ROW(name)								\
	UAT(mix_##name##_schar)(); UAT(mix_##name##_uchar)(); UAT(mix_##name##_sshort)();	\
	UAT(mix_##name##_ushort)(); UAT(mix_##name##_sint)(); UAT(mix_##name##_uint)();	\
	UAT(mix_##name##_slong)(); UAT(mix_##name##_ulong)();

void UAT(seq_all)(void)
{
	UAT(seq_schar)(); UAT(seq_uchar)(); UAT(seq_sshort)(); UAT(seq_ushort)();
	UAT(seq_sint)(); UAT(seq_uint)(); UAT(seq_slong)(); UAT(seq_ulong)();
	/* one target row per run keeps the run short; every row is visited across runs */
	switch (rnd(8)) {
	case 0: MIX_CALL_ROW(schar) break;
	case 1: MIX_CALL_ROW(uchar) break;
	case 2: MIX_CALL_ROW(sshort) break;
	case 3: MIX_CALL_ROW(ushort) break;
	case 4: MIX_CALL_ROW(sint) break;
	case 5: MIX_CALL_ROW(uint) break;
	case 6: MIX_CALL_ROW(slong) break;
	default: MIX_CALL_ROW(ulong) break;
	}
}

void UAT(conserve)(int me, struct op *op) { UAT(conserve_op)(me, op); }
unsigned long UAT(sb)(unsigned long *mine, unsigned long *other, int variant, int side) { return UAT(sb_side)(mine, other, variant, side); }

/* ------------------------------------------------------------------ driver (default variant only) */
#if !defined(UAT_BUILTINS) && !defined(UAT_C99)
void uatb_seq_all(void);
void uatb_conserve(int me, struct op *op);
unsigned long uatb_sb(unsigned long *mine, unsigned long *other, int variant, int side);
void uatc_seq_all(void);
void uatc_conserve(int me, struct op *op);
unsigned long uatc_sb(unsigned long *mine, unsigned long *other, int variant, int side);

static struct script scripts[MAX_SCRIPT_THREADS];
static int nthreads, impl, lvariant;
static unsigned long sb_r[2];
static int sb_ready;
static long mp_data, mp_flag, mp_r1 = -1, mp_r2 = -1;

static void *u_thread(void *arg)
{
	struct script *s = arg;
	int me = (int) (s - scripts), i;

	usim_thread_name("script%d", me);
	for (i = 0; i < s->nops; i++) {
		struct op *op = &s->ops[i];
		if (op->skip)
			continue;
		usim_set_op("%d.%d kind%d width%d", me, i, op->kind, 1 << op->a);
		if (impl == 2)
			uatc_conserve(me, op);
		else if (impl)
			uatb_conserve(me, op);
		else
			uatx_conserve(me, op);
	}
	/* litmus roles; the two store-buffering sides start together */
	if (me < 2 && nthreads >= 2 && !scripts[0].skip && !scripts[1].skip) {
		int spins = 0;
		uatomic_inc(&sb_ready);
		while (uatomic_read(&sb_ready) < 2 && spins++ < 300)
			usim_pause();
	}
	if (me == 0)
		sb_r[0] = impl == 2 ? uatc_sb(&lx, &ly, lvariant, 0) : impl ? uatb_sb(&lx, &ly, lvariant, 0) : uatx_sb(&lx, &ly, lvariant, 0);
	else if (me == 1)
		sb_r[1] = impl == 2 ? uatc_sb(&ly, &lx, lvariant, 1) : impl ? uatb_sb(&ly, &lx, lvariant, 1) : uatx_sb(&ly, &lx, lvariant, 1);
	else if (me == 2) {
		mp_data = 42;			/* plain store */
		uatomic_set(&mp_flag, 1);
	} else if (me == 3) {
		mp_r1 = uatomic_read(&mp_flag);
		mp_r2 = mp_data;		/* plain load */
	}
	usim_quiet_vote();
	return NULL;
}

void scen_uatomic(void)
{
	int t, i, voters = 0;
	unsigned long sum[4] = { 0, 0, 0, 0 };
	long ntokens_written = 0, toksum = 0, collected = 0;
	static const char *const lname[] = { "none", "cmm_smp_mb", "store(SEQ_CST_FENCE)", "xchg", "cmpxchg(success)",
		"cmpxchg(fail)+mb", "add_return", "sub_return", "store(SEQ_CST)",
		"r=add_return(other,0)", "r=sub_return(other,0)", "r=cmpxchg(other,0,0)", "add_return(dummy,0)" };

	no_faults();
	impl = (int) usim_param("impl", rnd(5) == 0 ? 2 : rnd(2));
	lvariant = (int) usim_param("litmus", rnd(L_NK));
	nthreads = (int) usim_param("nthreads", 2 + rnd(3));
	usim_describe("{\"impl\":\"%s\",\"litmus_barrier\":\"%s\",\"threads\":%d}", impl == 2 ? "x86 (gnu99 translation unit)" : impl ? "builtins" : "x86", lname[lvariant], nthreads);
	/* (c) sequential semantics first, alone */
	if (impl == 2)
		uatc_seq_all();
	else if (impl)
		uatb_seq_all();
	else
		uatx_seq_all();
	C = calloc(1, sizeof(*C));
	usim_mem_tag(C, "uatomic-cells");
	for (t = 0; t < nthreads; t++) {
		struct script *s = &scripts[t];
		s->nops = 2 + rnd(usim_tier() ? 12 : 8);
		for (i = 0; i < s->nops; i++) {
			struct op *op = &s->ops[i];
			static const long vals[] = { 1, 2, 3, 127, 128, 255, 256, 65535, 65536, -1, -7, 0x7fffffff, 0x100000000L };
			op->kind = rnd(A_NK);
			op->a = rnd(4);
			op->v = vals[rnd(sizeof(vals) / sizeof(vals[0]))];
			switch (op->kind) {
			case A_ADD: case A_ADD_RETURN: sum[op->a] += (unsigned long) op->v; break;
			case A_SUB: case A_SUB_RETURN: sum[op->a] -= (unsigned long) op->v; break;
			case A_INC: case A_CMPXCHG_INC: sum[op->a] += 1; break;
			case A_DEC: sum[op->a] -= 1; break;
			}
		}
	}
	script_apply_skips(scripts, nthreads);
	/* skipped ops do not count */
	memset(sum, 0, sizeof(sum));
	for (t = 0; t < nthreads; t++)
		for (i = 0; i < scripts[t].nops; i++) {
			struct op *op = &scripts[t].ops[i];
			if (op->skip || scripts[t].skip)
				continue;
			switch (op->kind) {
			case A_ADD: case A_ADD_RETURN: sum[op->a] += (unsigned long) op->v; break;
			case A_SUB: case A_SUB_RETURN: sum[op->a] -= (unsigned long) op->v; break;
			case A_INC: case A_CMPXCHG_INC: sum[op->a] += 1; break;
			case A_DEC: sum[op->a] -= 1; break;
			}
		}
	for (t = 0; t < nthreads; t++)
		if (!scripts[t].skip)
			voters++;
	usim_quiet_expect(voters);
	for (t = 0; t < nthreads; t++)
		if (!scripts[t].skip)
			pthread_create(&scripts[t].th, NULL, u_thread, &scripts[t]);
	for (t = 0; t < nthreads; t++)
		if (!scripts[t].skip)
			pthread_join(scripts[t].th, NULL);
	/* (a) no lost update, truncated to the operand width */
	if (C->c1 != (unsigned char) sum[0] || C->c2 != (unsigned short) sum[1] ||
	    C->c4 != (unsigned int) sum[2] || C->c8 != sum[3])
		usim_fail("uatomic-lost-update",
			"%s: after all read-modify-write operations the counters are c1=%u c2=%u c4=%u c8=%lu, expected %u %u %u %lu",
			impl ? "builtins" : "x86", C->c1, C->c2, C->c4, C->c8,
			(unsigned char) sum[0], (unsigned short) sum[1], (unsigned int) sum[2], sum[3]);
	for (t = 0; t < nthreads; t++) {
		int did = 0;
		for (i = 0; i < scripts[t].nops; i++)
			did |= !scripts[t].skip && !scripts[t].ops[i].skip && scripts[t].ops[i].kind == A_OR_AND;
		if (did && (((C->flags >> t) & 1) != 0 || ((C->flags >> (t + 8)) & 1) != 1))
			usim_fail("uatomic-lost-update", "%s: or/and on per-thread bits lost an update (flags %#lx, thread %d)",
				impl ? "builtins" : "x86", C->flags, t);
		for (i = 0; i < ntok[t]; i++) {
			collected += tok_collected[t][i];
			ntokens_written++;
			toksum += 1000 + t * 100 + i;
		}
	}
	if ((long) C->token + collected != toksum)
		usim_fail("uatomic-lost-update", "%s: xchg tokens not conserved (written sum %ld, collected %ld, left %lu)",
			impl ? "builtins" : "x86", toksum, collected, C->token);
	/* (b) litmus */
	if (nthreads >= 2 && !scripts[0].skip && !scripts[1].skip) {
		if (sb_r[0] == 0 && sb_r[1] == 0) {
			if (lvariant != L_NONE)
				usim_fail("uatomic-barrier",
					"%s: store-buffering litmus with %s between the store and the load: both threads read 0 (a full barrier forbids it)",
					impl ? "builtins" : "x86", lname[lvariant]);
			usim_probe("uatomic.sb_both_zero_without_barrier");
		}
		usim_probe("uatomic.sb_litmus_ran");
	}
	if (mp_r1 == 1 && mp_r2 != 42)
		usim_fail("uatomic-barrier", "message passing: flag observed but data stale (%ld)", mp_r2);
	usim_mark_nontrivial();
}
#endif
