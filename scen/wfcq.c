/*
 * wfcq.c — scenario `wfcq` (C10): cds_wfcq (and legacy cds_wfq) checked for
 * FIFO linearizability with a WGL checker; splice in both roles, iteration,
 * empty(), blocking and non-blocking dequeue, locked and single-consumer use.
 */
#include "common.h"
#include "wgl.h"
#include <urcu/wfcqueue.h>
#include <urcu/wfqueue.h>

enum { OP_ENQ, OP_DEQ, OP_DEQ_STATE, OP_DEQ_NB, OP_EMPTY, OP_SPLICE, OP_SPLICE_NB, OP_ITER, OP_ITER_NB, OP_NK };
static const char *const opname[] = { "enq", "deq", "deq_state", "deq_nb", "empty", "splice", "splice_nb", "iter", "iter_nb" };

struct qnode {
	struct cds_wfcq_node n;
	int id;
	int free_on_dequeue;
};

struct lnode {
	struct cds_wfq_node n;
	int id;
};

static struct cds_wfcq_head qh[2];
static struct cds_wfcq_tail qt[2];
static struct cds_wfq_queue lq;
static struct wgl_hist H;
static struct script scripts[MAX_SCRIPT_THREADS];
static int nthreads, locked, legacy, next_id, consumer;
static int nsplice;

static struct qnode *mknode(int id)
{
	struct qnode *n = malloc(sizeof(*n));
	usim_mem_tag(n, "wfcq-node");
	cds_wfcq_node_init(&n->n);
	n->id = id;	/* unique, fixed at generation time */
	n->free_on_dequeue = n->id & 1;
	return n;
}

static long consume(struct cds_wfcq_node *cn)
{
	struct qnode *n;
	long id;
	if (!cn)
		return -1;
	n = caa_container_of(RET_NODE(cn, "wfcq dequeue"), struct qnode, n);
	id = n->id;
	if (n->free_on_dequeue)
		free(n);	/* "it is valid to reuse and free a dequeued node immediately" */
	return id;
}

static void do_op(int me, struct op *op)
{
	int q = op->a & 1, i, st = 0;
	struct cds_wfcq_node *cn;

	if (H.n + 3 > WGL_MAXOPS - 2)
		return;	/* keep room for the two final iterations */
	switch (op->kind) {
	case OP_ENQ: {
		struct qnode *n = mknode((int) op->v);
		bool r;
		i = wgl_begin(&H, WQ_ENQ, q, n->id);
		r = cds_wfcq_enqueue(&qh[q], &qt[q], &n->n);
		wgl_end(&H, i, r);
		break;
	}
	case OP_DEQ:
		i = wgl_begin(&H, WQ_DEQ, q, 0);
		if (locked)
			cn = cds_wfcq_dequeue_blocking(&qh[q], &qt[q]);
		else
			cn = __cds_wfcq_dequeue_blocking(&qh[q], &qt[q]);
		wgl_end(&H, i, consume(cn));
		break;
	case OP_DEQ_STATE:
		i = wgl_begin(&H, WQ_DEQ, q, 0);
		if (locked)
			cn = cds_wfcq_dequeue_with_state_blocking(&qh[q], &qt[q], &st);
		else
			cn = __cds_wfcq_dequeue_with_state_blocking(&qh[q], &qt[q], &st);
		wgl_end(&H, i, consume(cn));
		if (cn && (st & CDS_WFCQ_STATE_LAST)) {
			/* LAST: the queue was empty right after this dequeue */
			int j = wgl_begin(&H, WQ_EMPTY, q, 0);
			H.ops[j].inv = H.ops[i].inv;
			wgl_end(&H, j, 1);
			H.ops[j].ret = H.ops[i].ret;
			wgl_set_after(&H, j, i);
			H.ops[j].thread = -2;
			/* must be adjacent: nothing enqueued between them is not expressible; relax to "after" */
		}
		break;
	case OP_DEQ_NB:
		if (locked)
			cds_wfcq_dequeue_lock(&qh[q], &qt[q]);
		i = wgl_begin(&H, WQ_DEQ, q, 0);
		st = 0;
		if (op->b & 1)
			cn = __cds_wfcq_dequeue_with_state_nonblocking(&qh[q], &qt[q], &st);
		else
			cn = __cds_wfcq_dequeue_nonblocking(&qh[q], &qt[q]);
		if (cn == CDS_WFCQ_WOULDBLOCK) {
			wgl_cancel(&H, i);
			usim_probe("wfcq.dequeue_wouldblock");
		} else {
			wgl_end(&H, i, consume(cn));
			if (cn && (st & CDS_WFCQ_STATE_LAST)) {
				int j = wgl_begin(&H, WQ_EMPTY, q, 0);
				H.ops[j].inv = H.ops[i].inv;
				wgl_end(&H, j, 1);
				H.ops[j].ret = H.ops[i].ret;
				wgl_set_after(&H, j, i);
				H.ops[j].thread = -2;
			}
		}
		if (locked)
			cds_wfcq_dequeue_unlock(&qh[q], &qt[q]);
		break;
	case OP_EMPTY: {
		bool r;
		i = wgl_begin(&H, WQ_EMPTY, q, 0);
		r = cds_wfcq_empty(&qh[q], &qt[q]);
		wgl_end(&H, i, r);
		break;
	}
	case OP_SPLICE:
	case OP_SPLICE_NB: {
		enum cds_wfcq_ret r;
		int d, a, slot;
		slot = op->c;	/* unique, fixed at generation time */
		/* src = q, dst = other queue */
		d = wgl_begin(&H, WQ_SPLICE_DRAIN, q, slot);
		a = wgl_begin(&H, WQ_SPLICE_APPEND, !q, slot);
		H.ops[a].inv = H.ops[d].inv;
		wgl_set_after(&H, a, d);
		if (op->kind == OP_SPLICE) {
			if (locked)
				r = cds_wfcq_splice_blocking(&qh[!q], &qt[!q], &qh[q], &qt[q]);
			else
				r = __cds_wfcq_splice_blocking(&qh[!q], &qt[!q], &qh[q], &qt[q]);
		} else {
			if (locked)
				cds_wfcq_dequeue_lock(&qh[q], &qt[q]);
			r = __cds_wfcq_splice_nonblocking(&qh[!q], &qt[!q], &qh[q], &qt[q]);
			if (locked)
				cds_wfcq_dequeue_unlock(&qh[q], &qt[q]);
		}
		if (r == CDS_WFCQ_RET_WOULDBLOCK) {
			wgl_cancel(&H, d);
			wgl_cancel(&H, a);
			usim_probe("wfcq.splice_wouldblock");
			break;
		}
		wgl_end(&H, d, 0);
		wgl_end(&H, a, r == CDS_WFCQ_RET_SRC_EMPTY ? 0 : r == CDS_WFCQ_RET_DEST_EMPTY ? 1 : 2);
		H.ops[d].ret = H.ops[a].ret;
		usim_probe("wfcq.splice");
		break;
	}
	case OP_ITER:
	case OP_ITER_NB: {
		struct cds_wfcq_node *it;
		int blocked = 0;
		if (locked)
			cds_wfcq_dequeue_lock(&qh[q], &qt[q]);
		i = wgl_begin(&H, WQ_ITER, q, 0);
		if (op->kind == OP_ITER) {
			__cds_wfcq_for_each_blocking(&qh[q], &qt[q], it) {
				if (H.ops[i].nlist >= WGL_MAXLIST)
					usim_fail("wfcq-iteration", "iteration of queue %d does not terminate (more than %d nodes visited)", q, WGL_MAXLIST);
				wgl_list_add(&H, i, caa_container_of(RET_NODE(it, "wfcq iteration (first/next)"), struct qnode, n)->id);
			}
		} else {
			it = __cds_wfcq_first_nonblocking(&qh[q], &qt[q]);
			while (it && it != CDS_WFCQ_WOULDBLOCK) {
				if (H.ops[i].nlist >= WGL_MAXLIST)
					usim_fail("wfcq-iteration", "iteration of queue %d does not terminate", q);
				wgl_list_add(&H, i, caa_container_of(RET_NODE(it, "wfcq iteration (first/next)"), struct qnode, n)->id);
				it = __cds_wfcq_next_nonblocking(&qh[q], &qt[q], it);
			}
			if (it == CDS_WFCQ_WOULDBLOCK)
				blocked = 1;
		}
		if (blocked) {
			wgl_cancel(&H, i);
			usim_probe("wfcq.iter_wouldblock");
		} else {
			wgl_end(&H, i, 0);
		}
		if (locked)
			cds_wfcq_dequeue_unlock(&qh[q], &qt[q]);
		break;
	}
	}
	(void) me;
}

static void do_legacy_op(struct op *op)
{
	int i;
	if (wgl_full(&H))
		return;
	if (op->kind == OP_ENQ) {
		struct lnode *n = malloc(sizeof(*n));
		usim_mem_tag(n, "wfq-node");
		cds_wfq_node_init(&n->n);
		n->id = (int) op->v;
		i = wgl_begin(&H, WQ_ENQ, 0, n->id);
		cds_wfq_enqueue(&lq, &n->n);
		wgl_end(&H, i, -1);
	} else {
		struct cds_wfq_node *cn;
		long id = -1;
		i = wgl_begin(&H, WQ_DEQ, 0, 0);
		if (locked)
			cn = cds_wfq_dequeue_blocking(&lq);
		else
			cn = __cds_wfq_dequeue_blocking(&lq);
		if (cn) {
			struct lnode *n = caa_container_of(RET_NODE(cn, "cds_wfq_dequeue"), struct lnode, n);
			id = n->id;
			if (id & 1)
				free(n);
		}
		wgl_end(&H, i, id);
	}
}

static void *q_thread(void *arg)
{
	struct script *s = arg;
	int me = (int) (s - scripts), i;

	usim_thread_name("script%d", me);
	for (i = 0; i < s->nops; i++) {
		struct op *op = &s->ops[i];
		if (op->skip)
			continue;
		usim_trace("op %d.%d %s q%d", me, i, opname[op->kind], op->a & 1);
		if (legacy)
		{
			op_stall_begin(op);
			do_legacy_op(op);
			op_stall_end();
		}
		else
		{
			op_stall_begin(op);
			do_op(me, op);
			op_stall_end();
		}
	}
	usim_quiet_vote();
	return NULL;
}

void scen_wfcq(void)
{
	int t, i, voters = 0, maxthr = 4, total = 0;
	char why[3000];

	no_faults();
	usim_fault_enable("poll_eintr", rnd(2));
	wgl_init(&H, WGL_FIFO);
	locked = (int) usim_param("locked", rnd(2));
	legacy = (int) usim_param("legacy", rnd(8) == 0);
	nthreads = (int) usim_param("nthreads", 2 + rnd(maxthr - 1));
	consumer = rnd(nthreads);
	usim_describe("{\"mode\":\"%s%s\",\"consumer\":%d,\"threads\":[", legacy ? "legacy-wfq-" : "",
		locked ? "locked" : "single-consumer", consumer);
	cds_wfcq_init(&qh[0], &qt[0]);
	cds_wfcq_init(&qh[1], &qt[1]);
	cds_wfq_init(&lq);
	for (t = 0; t < nthreads; t++) {
		struct script *s = &scripts[t];
		int may_consume = locked || t == consumer;
		s->nops = 1 + rnd(usim_tier() ? 8 : 6);
		if (total + s->nops > (legacy ? 13 : 24))
			s->nops = (legacy ? 13 : 24) - total > 0 ? (legacy ? 13 : 24) - total : 0;
		total += s->nops;
		usim_describe("%s[", t ? "," : "");
		for (i = 0; i < s->nops; i++) {
			struct op *op = &s->ops[i];
			uint32_t r = rnd(100);
			op->a = rnd(2);
			op->b = rnd(2);
			op_stall_gen(op, 5, 8);
			op->v = next_id++;
			if (legacy) {
				op->kind = (!may_consume || r < 55) ? OP_ENQ : OP_DEQ;
				op->a = 0;
			} else if (!may_consume) {
				op->kind = r < 80 ? OP_ENQ : OP_EMPTY;
			} else if (r < 30) op->kind = OP_ENQ;
			else if (r < 48) op->kind = OP_DEQ;
			else if (r < 56) op->kind = OP_DEQ_STATE;
			else if (r < 64) op->kind = OP_DEQ_NB;
			else if (r < 72) op->kind = OP_EMPTY;
			else if (r < 82) op->kind = OP_SPLICE;
			else if (r < 87) op->kind = OP_SPLICE_NB;
			else if (r < 95) op->kind = OP_ITER;
			else op->kind = OP_ITER_NB;
			if (op->kind == OP_SPLICE || op->kind == OP_SPLICE_NB) {
				if (nsplice >= 4)
					op->kind = OP_ENQ;
				else
					op->c = nsplice++;
			}
			usim_describe("%s\"%s%d\"", i ? "," : "", opname[op->kind], op->a);
		}
		usim_describe("]");
	}
	usim_describe("]}");
	script_apply_skips(scripts, nthreads);
	for (t = 0; t < nthreads; t++)
		if (!scripts[t].skip)
			voters++;
	usim_quiet_expect(voters);
	for (t = 0; t < nthreads; t++)
		if (!scripts[t].skip)
			pthread_create(&scripts[t].th, NULL, q_thread, &scripts[t]);
	for (t = 0; t < nthreads; t++)
		if (!scripts[t].skip)
			pthread_join(scripts[t].th, NULL);
	/* conservation: what is left must be exactly what the model says is left, in order */
	if (!legacy) {
		int q;
		for (q = 0; q < 2; q++) {
			struct cds_wfcq_node *it;
			i = wgl_begin(&H, WQ_ITER, q, 0);
			__cds_wfcq_for_each_blocking(&qh[q], &qt[q], it) {
				if (H.ops[i].nlist >= WGL_MAXLIST)
					usim_fail("wfcq-iteration", "final iteration of queue %d does not terminate", q);
				wgl_list_add(&H, i, caa_container_of(RET_NODE(it, "wfcq iteration (first/next)"), struct qnode, n)->id);
			}
			wgl_end(&H, i, 0);
		}
	} else {
		struct cds_wfq_node *cn;
		do {
			i = wgl_begin(&H, WQ_DEQ, 0, 0);
			cn = __cds_wfq_dequeue_blocking(&lq);
			wgl_end(&H, i, cn ? caa_container_of(RET_NODE(cn, "cds_wfq_dequeue"), struct lnode, n)->id : -1);
		} while (cn);
	}
	if (!wgl_check(&H, why, sizeof(why)))
		usim_fail("not-linearizable", "wait-free queue history is not a linearizable FIFO: %s", why);
	if (wgl_has_overlap(&H))
		usim_mark_nontrivial();
	usim_probe_n("wgl.states", H.states_explored);
}
