/* compiled four times: -DGLUE_MEMB / -DGLUE_MB / -DGLUE_QSBR / -DGLUE_BP */
#define URCU_API_MAP
#if defined(GLUE_MEMB)
# include <urcu/urcu-memb.h>
# define GNAME flavor_memb
# define GSTR "memb"
# define GID FLV_MEMB
# define GFLAVOR urcu_memb_flavor
#elif defined(GLUE_MB)
# include <urcu/urcu-mb.h>
# define GNAME flavor_mb
# define GSTR "mb"
# define GID FLV_MB
# define GFLAVOR urcu_mb_flavor
#elif defined(GLUE_QSBR)
# include <urcu/urcu-qsbr.h>
# define GNAME flavor_qsbr
# define GSTR "qsbr"
# define GID FLV_QSBR
# define GFLAVOR urcu_qsbr_flavor
#elif defined(GLUE_BP)
# include <urcu/urcu-bp.h>
# define GNAME flavor_bp
# define GSTR "bp"
# define GID FLV_BP
# define GFLAVOR urcu_bp_flavor
#endif
#include <urcu/call-rcu.h>
#include <urcu/defer.h>
#include "flavor.h"

static void g_read_lock(void) { rcu_read_lock(); }
static void g_read_unlock(void) { rcu_read_unlock(); }
static int g_read_ongoing(void) { return rcu_read_ongoing(); }
static void g_qs(void) { rcu_quiescent_state(); }
static void g_offline(void) { rcu_thread_offline(); }
static void g_online(void) { rcu_thread_online(); }
static void g_register(void) { rcu_register_thread(); }
static void g_unregister(void) { rcu_unregister_thread(); }

const struct flavor_ops GNAME = {
	.name = GSTR,
	.id = GID,
#ifdef GLUE_QSBR
	.is_qsbr = 1,
#endif
#ifdef GLUE_BP
	.is_bp = 1,
	.bp_before_fork = urcu_bp_before_fork,
	.bp_after_fork_parent = urcu_bp_after_fork_parent,
	.bp_after_fork_child = urcu_bp_after_fork_child,
#endif
	.flavor = &GFLAVOR,
	.read_lock = g_read_lock,
	.read_unlock = g_read_unlock,
	.read_ongoing = g_read_ongoing,
	.quiescent_state = g_qs,
	.thread_offline = g_offline,
	.thread_online = g_online,
	.register_thread = g_register,
	.unregister_thread = g_unregister,
	.synchronize_rcu = synchronize_rcu,
	.call_rcu = call_rcu,
	.barrier = rcu_barrier,
	.defer_rcu = defer_rcu,
	.defer_register_thread = rcu_defer_register_thread,
	.defer_unregister_thread = rcu_defer_unregister_thread,
	.defer_barrier = rcu_defer_barrier,
	.defer_barrier_thread = rcu_defer_barrier_thread,
	.start_poll = start_poll_synchronize_rcu,
	.poll_state = poll_state_synchronize_rcu,
	.create_call_rcu_data = create_call_rcu_data,
	.get_cpu_call_rcu_data = get_cpu_call_rcu_data,
	.set_cpu_call_rcu_data = set_cpu_call_rcu_data,
	.get_default_call_rcu_data = get_default_call_rcu_data,
	.get_call_rcu_data = get_call_rcu_data,
	.get_thread_call_rcu_data = get_thread_call_rcu_data,
	.set_thread_call_rcu_data = set_thread_call_rcu_data,
	.create_all_cpu_call_rcu_data = create_all_cpu_call_rcu_data,
	.call_rcu_data_free = call_rcu_data_free,
	.free_all_cpu_call_rcu_data = free_all_cpu_call_rcu_data,
	.call_rcu_before_fork = call_rcu_before_fork,
	.call_rcu_after_fork_parent = call_rcu_after_fork_parent,
	.call_rcu_after_fork_child = call_rcu_after_fork_child,
};
