/*
 * gp.c — scenarios `gp` (C01) and `gp_live` (C02), `registry` part for
 * memb/mb/qsbr (C15): readers, updaters and concurrent synchronize_rcu()
 * callers on every flavor.
 */
#include "common.h"
#include <urcu/uatomic.h>
#include <urcu/pointer.h>
#include <urcu/tls-compat.h>

/* bp: the per-thread pointer to the reader slot in the registry (library TLS) */
struct urcu_bp_reader;
extern DECLARE_URCU_TLS(struct urcu_bp_reader *, urcu_bp_reader);
static struct urcu_bp_reader *slot_of[64];	/* by simulated tid */

/* "its reader state never moves": once a thread has a slot it keeps that very slot until it exits */
static void bp_slot_check(const char *where)
{
	struct urcu_bp_reader *p = URCU_TLS(urcu_bp_reader);
	int tid = usim_tid();
	if (!p || tid < 0 || tid >= 64)
		return;
	if (!slot_of[tid])
		slot_of[tid] = p;
	else if (slot_of[tid] != p)
		usim_fail("bp-slot-moved", "thread T%d: reader slot observed at %p earlier is %p now (%s): registered twice or registry memory moved",
			tid, (void *) slot_of[tid], (void *) p, where);
}

enum { OP_READ, OP_UPDATE, OP_SYNC, OP_LITMUS_W, OP_QS, OP_OFFON, OP_REREG, OP_SPAWN, OP_NKINDS };
static const char *const opname[] = { "read", "update", "sync", "litmus_w", "qs", "offon", "rereg", "spawn_in_cs" };

struct obj {
	long version;
	long a;
	long pad[3];
	long b;
};

static const struct flavor_ops *F;
static struct obj *gptr;
static pthread_mutex_t upd_lock = PTHREAD_MUTEX_INITIALIZER;
static long version_ctr;
static long lx[MAX_SCRIPT_THREADS], ly[MAX_SCRIPT_THREADS], lcnt[MAX_SCRIPT_THREADS];
static struct script scripts[MAX_SCRIPT_THREADS];
static int nthreads;
static int qcs[MAX_SCRIPT_THREADS];	/* qsbr: currently open implicit section or -1 */
static int reg_mode;			/* scenario `registry` */
static int wave[MAX_SCRIPT_THREADS];
static int registered_in_wave0;
static int sig_after[MAX_SCRIPT_THREADS];
static int handler_runs, bp_cap;

/* bp: a handler that uses the read side; if it ever ran inside the automatic
 * registration it would self-deadlock on the registry lock or register twice */
static void reg_sig_handler(int signo)
{
	int cs;
	struct obj *p;
	(void) signo;
	/* not (or no longer: thread exit) registered at this point: what follows is a new registration */
	if (F->is_bp && !URCU_TLS(urcu_bp_reader) && usim_tid() >= 0 && usim_tid() < 64)
		slot_of[usim_tid()] = NULL;
	F->read_lock();
	cs = orc_cs_begin(100 + usim_tid());
	p = rcu_dereference(gptr);
	if (p->a != p->version * 3 + 1)
		usim_fail("reclaimed-object-read", "signal handler saw a reclaimed object");
	orc_cs_end(cs);
	if (F->is_bp)
		bp_slot_check("in the signal handler");
	F->read_unlock();
	handler_runs++;
}

/*
 * bp: an application thread-specific-data destructor whose key is younger than the library's
 * own, so that it runs after the library has unregistered the exiting thread, and which still
 * uses the read side ("a thread may use the read side at any time of its life, registration
 * is automatic"): the thread is registered again on the fly and unregistered by the next
 * destructor round.
 */
static pthread_key_t late_key;
static int late_on[MAX_SCRIPT_THREADS], late_pauses[MAX_SCRIPT_THREADS];
/* updater-only threads that never register as readers (synchronize_rcu() does not require it); in some runs nobody does */
static int unreg[MAX_SCRIPT_THREADS];

static void late_dtor(void *v)
{
	int me = (int) (long) v - 1, cs, k;
	struct obj *p;
	long ver, a, b;

	usim_set_op("%d.exit read-side section in a TSD destructor", me);
	if (!URCU_TLS(urcu_bp_reader) && usim_tid() >= 0 && usim_tid() < 64)
		slot_of[usim_tid()] = NULL;	/* unregistered by the library's destructor: a new registration follows */
	F->read_lock();
	cs = orc_cs_begin(200 + me);
	p = rcu_dereference(gptr);
	ver = p->version;
	a = p->a;
	for (k = 0; k < late_pauses[me]; k++)
		usim_pause();
	b = p->b;
	if (a != ver * 3 + 1 || b != ver * 7 + 2)
		usim_fail("reclaimed-object-read", "TSD destructor of exiting thread %d saw a reclaimed object", me);
	orc_cs_end(cs);
	bp_slot_check("in a thread-specific-data destructor at thread exit");
	F->read_unlock();
	usim_probe("gp.bp_read_side_in_late_tsd_destructor");
}

/*
 * bp: "a thread is removed when it exits". Checked in the exiting thread itself, after its last
 * destructor round: it must not be registered any more.
 */
HARNESS_BOOKKEEPING static void bp_exit_check(int late_signal)
{
	if (!F->is_bp || !URCU_TLS(urcu_bp_reader))
		return;
	usim_fail("bp-exits-registered",
		"thread T%d ends while it is still registered as a bp reader (slot %p stays allocated and listed for ever)%s",
		usim_tid(), (void *) URCU_TLS(urcu_bp_reader),
		late_signal ? ": a signal handler that uses the read side ran after the library's last thread-exit destructor round and registered the thread again"
			    : "");
}

static struct obj *new_obj(void)
{
	struct obj *o = malloc(sizeof(*o));
	usim_mem_tag(o, "gp-object");
	return o;
}

HARNESS_BOOKKEEPING static void qsbr_close(int me)
{
	if (F->is_qsbr && qcs[me] >= 0) {
		orc_cs_end(qcs[me]);
		qcs[me] = -1;
	}
}

HARNESS_BOOKKEEPING static void qsbr_open(int me)
{
	if (F->is_qsbr)
		qcs[me] = orc_cs_begin(me);
}

static void do_sync(int me, const char *what)
{
	int g;
	/* qsbr: synchronize_rcu() from an online thread is a quiescent state of the caller */
	qsbr_close(me);
	g = orc_gp_call(me);
	F->synchronize_rcu();
	orc_gp_done(g, what);
	if (!unreg[me])
		qsbr_open(me);
}

static void do_read(int me, struct op *op)
{
	int d, cs = -1, i;
	struct obj *p;
	long v, a, b, rx, ry;
	int depth = F->is_qsbr ? 0 : op->a;

	for (d = 0; d < depth; d++) {
		F->read_lock();
		if (d == 0)
			cs = orc_cs_begin(me);
	}
	p = rcu_dereference(gptr);
	v = p->version;
	a = p->a;
	for (i = 0; i < op->b; i++)
		usim_pause();
	b = p->b;
	if (a != v * 3 + 1 || b != v * 7 + 2)
		usim_fail("reclaimed-object-read",
			"reader %d saw object version %ld with a=%ld b=%ld inside its critical section", me, v, a, b);
	/* litmus: stores before the call are visible to whoever sees a store made after the return */
	ry = uatomic_read(&ly[op->c]);
	rx = uatomic_read(&lx[op->c]);
	if (rx < ry)
		usim_fail("gp-litmus",
			"reader %d saw y=%ld (stored after synchronize_rcu() returned) but x=%ld (stored before the call)",
			me, ry, rx);
	for (d = 0; d < depth; d++) {
		if (d == depth - 1)
			orc_cs_end(cs);
		F->read_unlock();
	}
}

static void do_update(int me)
{
	struct obj *n = new_obj(), *old;

	pthread_mutex_lock(&upd_lock);
	n->version = ++version_ctr;
	n->a = n->version * 3 + 1;
	n->b = n->version * 7 + 2;
	old = gptr;
	rcu_assign_pointer(gptr, n);
	pthread_mutex_unlock(&upd_lock);
	do_sync(me, "synchronize_rcu() (update)");
	free(old);
}

static void do_litmus_w(int me)
{
	long n = ++lcnt[me];
	uatomic_set(&lx[me], n);
	do_sync(me, "synchronize_rcu() (litmus)");
	uatomic_set(&ly[me], n);
}

/*
 * A short-lived thread that registers, reads and unregisters. Its creator
 * starts and joins it from INSIDE a read-side critical section (qsbr: while
 * online), so a grace period that is in progress is waiting for the creator
 * while the child (un)registers: registration must not depend on that grace
 * period making progress (C15: "at any moment relative to running grace periods").
 */
static void *spawned_child(void *arg)
{
	int who = 30 + (int) (long) arg, cs;
	struct obj *p;

	usim_thread_name("child-of-script%d", who - 30);
	if (!F->is_bp)
		F->register_thread();
	if (F->is_qsbr) {
		cs = orc_cs_begin(who);
	} else {
		F->read_lock();
		cs = orc_cs_begin(who);
	}
	p = rcu_dereference(gptr);
	if (p->a != p->version * 3 + 1 || p->b != p->version * 7 + 2)
		usim_fail("reclaimed-object-read", "short-lived reader saw a reclaimed object");
	orc_cs_end(cs);
	if (!F->is_qsbr)
		F->read_unlock();
	if (!F->is_bp)
		F->unregister_thread();
	return NULL;
}

static void do_spawn(int me)
{
	pthread_t th;
	int cs = -1;

	if (!F->is_qsbr) {
		F->read_lock();
		cs = orc_cs_begin(me);
	}
	pthread_create(&th, NULL, spawned_child, (void *) (long) me);
	pthread_join(th, NULL);
	if (!F->is_qsbr) {
		orc_cs_end(cs);
		F->read_unlock();
	}
}

static void *gp_thread(void *arg)
{
	struct script *s = arg;
	int me = (int) (s - scripts), i, last = script_last(s);

	usim_thread_name("script%d", me);
	if (reg_mode && F->is_bp && sig_after[me])
		usim_signal_plan(usim_tid(), 10, (uint64_t) sig_after[me]);
	if (!F->is_bp && !unreg[me])
		F->register_thread();
	if (F->is_bp && late_on[me])
		pthread_setspecific(late_key, (void *) (long) (me + 1));
	if (!unreg[me])
		qsbr_open(me);
	if (last < 0)
		usim_quiet_vote();
	for (i = 0; i < s->nops; i++) {
		struct op *op = &s->ops[i];
		if (op->skip)
			continue;
		if (i == last)
			usim_quiet_vote();
		usim_trace("op %d.%d %s", me, i, opname[op->kind]);
		op_stall_begin(op);
		switch (op->kind) {
		case OP_READ:
			do_read(me, op);
			if (F->is_bp)
				bp_slot_check("after a read-side section");
			if (reg_mode && F->is_bp && wave[me] == 0)
				registered_in_wave0 = 1;
			break;
		case OP_UPDATE: do_update(me); break;
		case OP_SYNC: do_sync(me, "synchronize_rcu()"); break;
		case OP_LITMUS_W: do_litmus_w(me); break;
		case OP_QS:
			if (F->is_qsbr) {
				qsbr_close(me);
				F->quiescent_state();
				qsbr_open(me);
			}
			break;
		case OP_OFFON:
			if (F->is_qsbr) {
				int k;
				qsbr_close(me);
				F->thread_offline();
				for (k = 0; k < op->b; k++)
					usim_pause();
				F->thread_online();
				qsbr_open(me);
			}
			break;
		case OP_SPAWN: do_spawn(me); break;
		case OP_REREG:
			if (!F->is_bp) {
				int k;
				qsbr_close(me);
				F->unregister_thread();
				for (k = 0; k < op->b; k++)
					usim_pause();
				F->register_thread();
				qsbr_open(me);
			}
			break;
		}
		op_stall_end();
	}
	qsbr_close(me);
	if (!F->is_bp && !unreg[me])
		F->unregister_thread();
	return NULL;
}

static void gen(int live)
{
	int t, i, maxthr = usim_tier() ? 6 : 4, maxops = usim_tier() ? 8 : 5;
	int nobody_registers = !reg_mode && rnd(8) == 0;

	if (reg_mode)
		maxthr = 8;
	nthreads = (int) usim_param("nthreads", 2 + rnd(maxthr - 1));
	usim_describe("{\"flavor\":\"%s\",", F->name);
	choose_rcu_knobs(live);
	usim_describe("\"threads\":[");
	for (t = 0; t < nthreads; t++) {
		struct script *s = &scripts[t];
		int role = rnd(3);	/* 0 reader-heavy, 1 updater-heavy, 2 mixed */
		unreg[t] = !reg_mode && (nobody_registers || (role == 1 && rnd(4) == 0));
		s->nops = 1 + rnd(maxops);
		usim_describe("%s[", t ? "," : "");
		for (i = 0; i < s->nops; i++) {
			struct op *op = &s->ops[i];
			uint32_t r = rnd(100);
			int rd = role == 0 ? 70 : role == 1 ? 20 : 45;
			int rr = reg_mode ? 40 : 14;
			if (reg_mode)
				rd = rd * 2 / 3;
			if (r < (uint32_t) rd)
				op->kind = OP_READ;
			else if (r < (uint32_t) rd + 8 && F->is_qsbr)
				op->kind = rnd(2) ? OP_QS : OP_OFFON;
			else if (r < (uint32_t) rd + (uint32_t) rr && !F->is_bp)
				op->kind = OP_REREG;
			else if (r >= 100 - (reg_mode ? 10u : 3u))
				op->kind = OP_SPAWN;
			else {
				static const int upd[] = { OP_UPDATE, OP_UPDATE, OP_SYNC, OP_LITMUS_W };
				op->kind = pick(upd, 4);
			}
			if (unreg[t] && op->kind != OP_UPDATE && op->kind != OP_SYNC && op->kind != OP_LITMUS_W) {
				static const int upd2[] = { OP_UPDATE, OP_SYNC, OP_SYNC, OP_LITMUS_W };
				op->kind = pick(upd2, 4);
			}
			op->a = 1 + rnd(3);		/* nesting depth */
			op->b = rnd(4);			/* pauses inside */
			op->c = rnd(nthreads);		/* litmus pair read */
			op_stall_gen(op, 5, 14);
			usim_describe("%s\"%s", i ? "," : "", opname[op->kind]);
			if (op->kind == OP_READ)
				usim_describe("(d%d,p%d)", op->a, op->b);
			usim_describe("\"");
		}
		usim_describe("]");
		wave[t] = 0;
		sig_after[t] = 0;
		late_on[t] = F->is_bp && !unreg[t] && rnd(3) == 0;
		late_pauses[t] = (int) rnd(6);
		if (reg_mode && F->is_bp) {
			/* last one or two threads form a second wave started after everybody exited */
			if (nthreads >= 3 && t >= nthreads - 1 - (int) (rnd(2) && nthreads >= 4))
				wave[t] = 1;
			if (rnd(2))
				sig_after[t] = 1 + rnd(80);
		}
	}
	usim_describe("]}");
	script_apply_skips(scripts, nthreads);
}

static void run_common(int live)
{
	int t;

	orc_reset();
	F = choose_flavor(0xf);
	if (live)
		choose_futex_faults(1);
	else
		no_faults();
	if (reg_mode) {
		static const int caps[] = { 1, 2, 2, 8 };
		int cap = (int) usim_param("knob.bp_init_reader_count", caps[rnd(4)]);
		bp_cap = cap;
		usim_set_knob(URCU_VERIF_KNOB_BP_INIT_READER_COUNT, cap);
		usim_fault_enable("mremap_inplace_fails", rnd(2));
		usim_signal_handler(10, reg_sig_handler);
	}
	gen(live);
	if (F->is_bp && pthread_key_create(&late_key, late_dtor))
		usim_fail("api-error", "pthread_key_create failed");
	if (F->is_bp) {
		usim_thread_exit_hook(bp_exit_check);
		usim_fault_enable("signal_after_last_tsd_destructor", reg_mode && rnd(4) == 0);
	}
	gptr = new_obj();
	gptr->version = 0;
	gptr->a = 1;
	gptr->b = 2;
	for (t = 0; t < nthreads; t++)
		qcs[t] = -1;
	{
		int voters = 0;
		for (t = 0; t < nthreads; t++)
			if (!scripts[t].skip)
				voters++;
		usim_quiet_expect(voters);
	}
	{
		int w;
		uint64_t maps_before = 0;
		for (w = 0; w < 2; w++) {
			if (w == 1)
				maps_before = usim_mmap_calls();
			for (t = 0; t < nthreads; t++)
				if (!scripts[t].skip && wave[t] == w)
					pthread_create(&scripts[t].th, NULL, gp_thread, &scripts[t]);
			for (t = 0; t < nthreads; t++)
				if (!scripts[t].skip && wave[t] == w)
					pthread_join(scripts[t].th, NULL);
		}
		/* slots of exited threads are reused: the late wave (<= 2 threads, capacity >= 2) maps nothing */
		{
			int n1 = 0;
			for (t = 0; t < nthreads; t++) {
				int i2, spawns = 0;
				if (scripts[t].skip || wave[t] != 1)
					continue;
				for (i2 = 0; i2 < scripts[t].nops; i2++)
					spawns |= !scripts[t].ops[i2].skip && scripts[t].ops[i2].kind == OP_SPAWN;
				n1 += 1 + spawns;	/* a short-lived child lives next to its creator */
			}
			if (n1 > bp_cap)
				registered_in_wave0 = 0;	/* growth may be legitimately needed */
		}
		if (reg_mode && F->is_bp && registered_in_wave0 && usim_mmap_calls() != maps_before)
			usim_fail("bp-registry-no-reuse",
				"after every thread of the first wave exited, %lu new registry mapping request(s) were made for a second wave that fits the initial capacity",
				(unsigned long) (usim_mmap_calls() - maps_before));
		if (reg_mode && F->is_bp)
			usim_probe_n("registry.handler_runs", handler_runs);
	}
	if (orc_ngp() && orc_ncs() && nthreads > 1)
		usim_probe("gp.run_with_gp_and_cs");
}

void scen_gp(void) { run_common(0); }
void scen_gp_live(void) { run_common(1); }
void scen_registry(void) { reg_mode = 1; run_common((int) usim_param("with_faults", rnd(2))); }
