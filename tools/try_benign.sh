#!/bin/sh
# usage: tools/try_benign.sh <patch.diff> <property-id>...
# Applies a behaviour-preserving patch to /repo, runs the quick checks, always restores /repo.
# Exit status: 0 = every check exited 0 (no alarm), 1 = some check raised an alarm or failed.
patch=$(readlink -f "$1"); shift
cd /repo || exit 2
if ! git diff --quiet; then echo "try_benign: /repo has uncommitted changes" >&2; exit 2; fi
git apply "$patch" || { echo "try_benign: patch does not apply" >&2; exit 2; }
bad=0
cd /verif
for p in "$@"; do
	out=$(./check "$p" 2>&1); rc=$?
	echo "$out" | tail -3
	echo "BENIGN $p rc=$rc"
	[ $rc -ne 0 ] && bad=1
done
git -C /repo checkout -- .
git -C /verif checkout -- evidence
exit $bad
