#!/bin/sh
# usage: tools/mk_worktree.sh <dir>...   — scratch git worktrees of /repo HEAD, configured and built (outside /repo and /verif)
for d in "$@"; do
	( git -C /repo worktree add --detach "$d" HEAD >/dev/null 2>&1 &&
	  cd "$d" && ./bootstrap >/dev/null 2>&1 && ./configure >/dev/null 2>&1 && make -j4 >/dev/null 2>&1 &&
	  echo "built $d" || echo "FAILED $d" ) &
done
wait
