#!/bin/sh
# usage: tools/adopt_mutant.sh <worktree> <seeded-id>
# Confirms in the scratch worktree that (1) the mutation builds, (2) make -k check passes with it,
# (3) the demo fails with it and (4) passes without it; then stores patch + demo under /verif/seeded/<id>/.
wt=$1; id=$2
cd "$wt" || exit 2
git diff > /tmp/adopt.$$.diff
[ -s /tmp/adopt.$$.diff ] || { echo "no mutation in $wt"; exit 2; }
run_demo() { ( cd "$wt" && timeout 600 sh demo/run.sh ) >/tmp/adopt.$$.out 2>&1; echo $?; }
make -j8 >/dev/null 2>&1 || { echo "build with mutation FAILED"; exit 2; }
make -k check >/tmp/adopt.$$.check 2>&1
pass=$(grep -E "^# PASS:" /tmp/adopt.$$.check | sort -t: -k2 -n | tail -1)
fail=$(grep -E "^# (FAIL|ERROR):" /tmp/adopt.$$.check | grep -v " 0$" | head -1)
rc_with=$(run_demo); tail -3 /tmp/adopt.$$.out > /tmp/adopt.$$.with
git apply -R /tmp/adopt.$$.diff && make -j8 >/dev/null 2>&1
rc_without=$(run_demo); tail -3 /tmp/adopt.$$.out > /tmp/adopt.$$.without
git apply /tmp/adopt.$$.diff && make -j8 >/dev/null 2>&1
echo "suite with mutation: $pass ${fail:-(no failures)}"
echo "demo with mutation: rc=$rc_with :: $(tr '\n' ' ' < /tmp/adopt.$$.with | cut -c1-300)"
echo "demo without mutation: rc=$rc_without :: $(tr '\n' ' ' < /tmp/adopt.$$.without | cut -c1-300)"
mkdir -p /verif/seeded/$id
cp /tmp/adopt.$$.diff /verif/seeded/$id/patch.diff
rm -rf /verif/seeded/$id/demo; mkdir -p /verif/seeded/$id/demo
for f in "$wt"/demo/*; do case "$f" in *.c|*.sh|*.h|*.md|*.txt|*.S) cp "$f" /verif/seeded/$id/demo/ ;; esac; done
printf '%s\n' "$pass" "$rc_with" "$rc_without" > /verif/seeded/$id/.confirm
rm -f /tmp/adopt.$$.*
