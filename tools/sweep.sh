#!/bin/sh
# usage (from a vp run snapshot): tools/sweep.sh <tier> <jobs> <seed> [props...]
# Runs checks against a private copy of /repo's HEAD ($VP_RUN_REPO) so that edits to /repo do not disturb it.
tier=$1; jobs=$2; seed=$3; shift 3
props=${*:-C01 C02 C03 C04 C05 C06 C07 C08 C09 C10 C11 C12 C13 C14 C15 C16 C17 C18 C19 C20}
if [ -n "$VP_RUN_REPO" ]; then
	cp /repo/include/config.h "$VP_RUN_REPO/include/config.h"
	cp /repo/include/urcu/config.h "$VP_RUN_REPO/include/urcu/config.h"
	export VERIF_REPO="$VP_RUN_REPO"
fi
export VERIF_BUILD="$PWD/build"
mkdir -p sweepdir; export TMPDIR="$PWD/sweepdir"
for p in $props; do
	./check $p --tier $tier --jobs $jobs --seed $seed 2>&1 | tail -8
	echo "== $p rc=$?"
done
