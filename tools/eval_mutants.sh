#!/bin/sh
# usage: tools/eval_mutants.sh "<id> <check> [<check>...]" ...   — for each: adopt from /tmp/mut/<id> (if not yet adopted), then try the checks
mkdir -p /tmp/mut/results
for spec in "$@"; do
	set -- $spec; id=$1; shift
	log=/tmp/mut/results/$id.log
	: > $log
	if [ ! -f /verif/seeded/$id/patch.diff ]; then
		/verif/tools/adopt_mutant.sh /tmp/mut/$id $id >> $log 2>&1
	fi
	for c in "$@"; do
		/verif/tools/try_mutant.sh /verif/seeded/$id/patch.diff $c >> $log 2>&1
		echo "RESULT $id $c caught=$([ $? -eq 0 ] && echo yes || echo NO)" >> $log
	done
	grep -h "^RESULT" $log
done
