#!/bin/sh
# usage: tools/try_mutant.sh <patch.diff> <property-id>... [-- extra check args]
# Applies the patch to /repo, runs the quick check(s), always restores /repo.
# Exit status: 0 = at least one check reported a VIOLATION (mutant caught), 1 = missed, 2 = problem.
patch=$(readlink -f "$1"); shift
cd /repo || exit 2
if ! git diff --quiet; then echo "try_mutant: /repo has uncommitted changes" >&2; exit 2; fi
git apply "$patch" || { echo "try_mutant: patch does not apply" >&2; exit 2; }
caught=1
cd /verif
for p in "$@"; do
	out=$(./check "$p" 2>&1); rc=$?
	echo "$out" | tail -4
	[ $rc -eq 1 ] && caught=0
	[ $rc -eq 2 ] && echo "try_mutant: check $p reported a machinery failure" >&2
done
git -C /repo checkout -- .
rm -rf /verif/replays
# the evidence files were rewritten by runs against the changed tree: put the committed ones back
git -C /verif checkout -- evidence 2>/dev/null
exit $caught
