#!/usr/bin/env python3
"""usage: tools/mk_meta.py <id> <property> <change> <needs> <caught_by> [note]  — writes seeded/<id>/meta.json from .confirm"""
import sys, json, os
V = os.path.dirname(os.path.dirname(os.path.abspath(__file__)))
i, prop, change, needs, caught = sys.argv[1:6]
note = sys.argv[6] if len(sys.argv) > 6 else ""
d = os.path.join(V, "seeded", i)
c = open(os.path.join(d, ".confirm")).read().split("\n")
m = {"id": i, "property": prop,
     "origin": "independent sub-agent given only the property text and a scratch worktree of /repo",
     "change": change, "needs_to_manifest": needs,
     "confirmed_in_scratch_worktree": {"builds": True, "make_check_with_change": c[0], "demo_with_change_exit": int(c[1]),
                                       "demo_without_change_exit": int(c[2]), "how": "tools/adopt_mutant.sh <worktree> " + i},
     "demonstration": "demo/", "caught_by_checks": caught,
     "how_run": "tools/try_mutant.sh seeded/%s/patch.diff <checks> (quick tier, default seed)" % i}
if note:
    m["note"] = note
json.dump(m, open(os.path.join(d, "meta.json"), "w"), indent=1)
os.remove(os.path.join(d, ".confirm"))
