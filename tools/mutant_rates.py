#!/usr/bin/env python3
"""usage: tools/mutant_rates.py [--runs N] [--jobs J] [ids...]
For every seeded change: scratch worktree of /repo HEAD + patch (outside /repo and /verif), run the primary scenario(s)
of its property for N runs, count failing runs. Writes seeded/rates.json (hit rate = failing runs / runs)."""
import sys, os, json, subprocess, glob, re, shutil
V = os.path.dirname(os.path.dirname(os.path.abspath(__file__)))
sys.path.insert(0, V)
from props import PROPS
runs, jobs, ids = 100000, 8, []
a = sys.argv[1:]
while a:
    x = a.pop(0)
    if x == "--runs": runs = int(a.pop(0))
    elif x == "--jobs": jobs = int(a.pop(0))
    else: ids.append(x)
out = os.path.join(V, "seeded", "rates.json")
rates = json.load(open(out)) if os.path.exists(out) else {}
for d in sorted(glob.glob(V + "/seeded/C*")):
    mid = os.path.basename(d)
    if ids and mid not in ids: continue
    m = json.load(open(d + "/meta.json"))
    wt = "/tmp/mut/rate-" + mid
    subprocess.run(["git", "-C", "/repo", "worktree", "remove", "--force", wt], capture_output=True)
    if subprocess.run(["git", "-C", "/repo", "worktree", "add", "--detach", wt, "HEAD"], capture_output=True).returncode: 
        print(mid, "worktree failed"); continue
    try:
        if subprocess.run(["git", "-C", wt, "apply", d + "/patch.diff"], capture_output=True).returncode:
            print(mid, "patch does not apply"); continue
        shutil.copy("/repo/include/config.h", wt + "/include/config.h")
        shutil.copy("/repo/include/urcu/config.h", wt + "/include/urcu/config.h")
        env = dict(os.environ, VERIF_REPO=wt, VERIF_BUILD="/tmp/mut/build-rate")
        res = {}
        for scen in PROPS[m["property"]]["scenarios"]:
            r = subprocess.run([V + "/check", "scen", scen, "--runs", str(runs), "--jobs", str(jobs)], env=env, capture_output=True, text=True)
            mo = re.search(r"fails: (\d+)", r.stdout)
            nbug = len(re.findall(r'"BUG ', r.stdout))
            mr = re.search(r'"runs": (\d+)', r.stdout)
            res[scen] = {"fails": int(mo.group(1)) if mo else -1, "machinery": nbug, "runs": int(mr.group(1)) if mr else runs}
        rates[mid] = res
        print(mid, res, flush=True)
        json.dump(rates, open(out, "w"), indent=1, sort_keys=True)
    finally:
        subprocess.run(["git", "-C", "/repo", "worktree", "remove", "--force", wt], capture_output=True)
