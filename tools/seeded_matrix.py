#!/usr/bin/env python3
"""Regenerates the table of DESIGN.md section 10 (between the SEEDED-TABLE markers) from seeded/*/meta.json."""
import json, glob, re, os
V = os.path.dirname(os.path.dirname(os.path.abspath(__file__)))
rows = []
try:
    rates = json.load(open(V + "/seeded/rates.json"))
except Exception:
    rates = {}
def rate(mid):
    r = rates.get(mid)
    if not r:
        return ""
    return "; ".join("%s %d/%d" % (s, v["fails"], v["runs"]) for s, v in sorted(r.items()))
for d in sorted(glob.glob(V + "/seeded/*")):
    try:
        m = json.load(open(d + "/meta.json"))
    except Exception:
        continue
    def c(s):
        return str(s).replace("|", "\\|").replace("\n", " ")
    rows.append("| %s | %s | %s | %s | %s | %s |" % (m["id"], c(m["change"]), c(m["needs_to_manifest"]), c(m["caught_by_checks"]), rate(m["id"]), c(m.get("note", ""))))
tab = "| id | change (applied to a scratch copy of /repo only) | needs, to manifest | caught by (quick tier, default seed) | failing runs / runs of the property's scenario (tools/mutant_rates.py) | note |\n|---|---|---|---|---|---|\n" + "\n".join(rows) + "\n"
p = V + "/DESIGN.md"
s = open(p).read()
s2 = re.sub(r"(<!-- SEEDED-TABLE-BEGIN -->\n).*?(<!-- SEEDED-TABLE-END -->)", lambda mo: mo.group(1) + tab + mo.group(2), s, flags=re.S)
open(p, "w").write(s2)
print("rows:", len(rows))
