#!/usr/bin/env python3
"""Regenerates MANIFEST.json from props.py (single source of truth)."""
import json, subprocess, sys
sys.path.insert(0, '/verif')
from props import PROPS, NOT_APPLICABLE, MANIFEST_TEXT
allp = [json.loads(l) for l in open('/verif/properties.jsonl')]
hooks = subprocess.run(['git', '-C', '/repo', 'log', '--format=%H %s'], capture_output=True, text=True).stdout.splitlines()
hook_commits = [l.split()[0] for l in hooks if l.split(' ', 1)[1].startswith('verif:')]
checks = []
for pid, p in PROPS.items():
    t = MANIFEST_TEXT[pid]
    checks.append({
        "property_id": pid,
        "quick_cmd": "./check %s --tier quick" % pid,
        "thorough_cmd": "./check %s --tier thorough" % pid,
        "evidence_file": "evidence/%s.json" % pid,
        "replay_cmd_template": "./check replay {path}",
        "engine": "usim",
        "level_claimed": {"category": p["level"], "text": t["level_text"], "design_ref": t["design_ref"]},
        "level_note": t["level_note"],
        "technique": t.get("technique", "deterministic simulation with fault injection: seeded scheduler over real liburcu code (TSan-style access hooks, simulated x86-TSO store buffers, simulated futex/membarrier/mutex/mmap), oracles on the recorded history"),
    })
m = {
    "version": 1,
    "setup_cmd": "make -C /verif -j16 BUILD=/verif/build",
    "hooks": {
        "guard": "URCU_VERIF",
        "enable": "checks compile /repo/src/*.c directly from the working tree with -DURCU_VERIF and gcc -fsanitize=thread instrumentation (not linked with libtsan) and link them with /verif/usim (see /verif/Makefile)",
        "baseline_off_cmd": "cd /repo && make -j16 && make -k check",
        "source_commits": hook_commits,
        "add_only": True,
    },
    "engines": [{"name": "usim", "path": "usim/", "serves_properties": sorted(PROPS.keys()),
                 "kind_free_text": "deterministic simulator: real parked pthreads released one at a time by a seeded scheduler at every instrumented memory access / atomic / fence / syscall; simulated x86-TSO store buffers, futex, membarrier, mutex/cond, clock, getcpu, mmap, signals, fork; tracked arena with quarantine; fork-per-run zygote"}],
    "checks": checks,
    "notes": "One seed = one exactly repeatable execution (VERIF_SEED selects the batch). See DESIGN.md.",
    "not_applicable": [{"property_id": p["id"], "reason": NOT_APPLICABLE.get(p["id"], "check not built yet in this revision (planned scenario in DESIGN.md section 3); nothing is claimed for it")}
                       for p in allp if p["id"] not in PROPS],
}
json.dump(m, open('/verif/MANIFEST.json', 'w'), indent=1)
print("manifest:", len(checks), "checks,", len(m["not_applicable"]), "not claimed")
