# Builds the usim runtime (plain) and the instrumented liburcu + scenarios from
# /repo's current working tree. Usage: make -C /verif BUILD=<dir> [-j16]
REPO ?= /repo
BUILD ?= /verif/build
CC = gcc
OPT ?= -O1
# instrumented code: libc entry points redirected to the simulator, text placed in its own section (crash classification)
POSTPROC = objcopy --redefine-syms=redef.txt --rename-section .text=itext
# scenario (harness) code goes to a section of its own: the runtime can tell who called it
POSTPROC_SCEN = objcopy --redefine-syms=redef.txt --rename-section .text=stext
RTFLAGS = -O2 -g -Wall -Wextra -Wno-unused-parameter -fno-omit-frame-pointer
INSTR = -fsanitize=thread -U__SANITIZE_THREAD__ --param tsan-distinguish-volatile=1 \
	--param tsan-instrument-func-entry-exit=0
URCUFLAGS = $(OPT) -g -fno-omit-frame-pointer $(INSTR) -D_GNU_SOURCE -DURCU_VERIF \
	-include $(REPO)/include/config.h -I$(REPO)/include -I$(REPO)/src -w $(EXTRA_URCU)
SCENFLAGS = $(OPT) -g -fno-omit-frame-pointer $(INSTR) -D_GNU_SOURCE -DURCU_VERIF \
	-I$(REPO)/include -I$(REPO)/src -Wall -Wno-unused-function -Wno-misleading-indentation $(EXTRA_URCU)

RT_OBJS = $(BUILD)/rt.o $(BUILD)/os.o $(BUILD)/mem.o $(BUILD)/main.o $(BUILD)/oracle.o $(BUILD)/wgl.o
COMMON_SRC = compat_arch compat_futex urcu-pointer wfqueue wfcqueue wfstack lfstack \
	rculfqueue rculfstack rculfhash rculfhash-mm-order rculfhash-mm-chunk rculfhash-mm-mmap workqueue
URCU_OBJS = $(patsubst %,$(BUILD)/u-%.o,$(COMMON_SRC)) \
	$(BUILD)/u-urcu-memb.o $(BUILD)/u-urcu-mb.o $(BUILD)/u-urcu-qsbr.o $(BUILD)/u-urcu-bp.o
SCEN_SRC = $(wildcard scen/*.c)
SCEN_NAMES = $(filter-out oracle wgl flavor_glue,$(basename $(notdir $(SCEN_SRC))))
SCEN_OBJS = $(patsubst %,$(BUILD)/s-%.o,$(SCEN_NAMES)) \
	$(BUILD)/s-glue-memb.o $(BUILD)/s-glue-mb.o $(BUILD)/s-glue-qsbr.o $(BUILD)/s-glue-bp.o \
	$(BUILD)/s-uatomic-builtins.o $(BUILD)/s-uatomic-c99.o

REPO_DEPS = $(wildcard $(REPO)/src/*.c $(REPO)/src/*.h $(REPO)/include/urcu/*.h \
	$(REPO)/include/urcu/*/*.h $(REPO)/include/*.h)

all: $(BUILD)/usim $(BUILD)/uat-native-x86 $(BUILD)/uat-native-builtins

# hook-free, uninstrumented, optimised builds of the uatomic value-semantics sweep (C20), one per implementation
NATFLAGS = -O2 -g -fno-strict-aliasing -Wall -Wno-type-limits -D_GNU_SOURCE -include $(REPO)/include/config.h -I$(REPO)/include
$(BUILD)/uat-native-x86: native/uatomic_native.c $(REPO_DEPS) | $(BUILD)/.dir
	$(CC) $(NATFLAGS) $< -o $@
$(BUILD)/uat-native-builtins: native/uatomic_native.c $(REPO_DEPS) | $(BUILD)/.dir
	$(CC) $(NATFLAGS) -DCONFIG_RCU_USE_ATOMIC_BUILTINS $< -o $@

$(RT_OBJS) $(URCU_OBJS) $(SCEN_OBJS): | $(BUILD)/.dir
$(BUILD)/.dir:
	mkdir -p $(BUILD) && touch $@

$(BUILD)/%.o: usim/%.c usim/rt_internal.h usim/usim.h
	$(CC) $(RTFLAGS) -c $< -o $@
$(BUILD)/oracle.o: scen/oracle.c scen/oracle.h usim/usim.h
	$(CC) $(RTFLAGS) -c $< -o $@
$(BUILD)/wgl.o: scen/wgl.c scen/wgl.h usim/usim.h
	$(CC) $(RTFLAGS) -c $< -o $@

$(BUILD)/u-urcu-memb.o: $(REPO)/src/urcu.c $(REPO_DEPS) redef.txt
	$(CC) $(URCUFLAGS) -DRCU_MEMBARRIER -c $< -o $@ && $(POSTPROC) $@
$(BUILD)/u-urcu-mb.o: $(REPO)/src/urcu.c $(REPO_DEPS) redef.txt
	$(CC) $(URCUFLAGS) -DRCU_MB -c $< -o $@ && $(POSTPROC) $@
$(BUILD)/u-urcu-qsbr.o: $(REPO)/src/urcu-qsbr.c $(REPO_DEPS) redef.txt
	$(CC) $(URCUFLAGS) -DRCU_QSBR -c $< -o $@ && $(POSTPROC) $@
$(BUILD)/u-urcu-bp.o: $(REPO)/src/urcu-bp.c $(REPO_DEPS) redef.txt
	$(CC) $(URCUFLAGS) -c $< -o $@ && $(POSTPROC) $@
$(BUILD)/u-%.o: $(REPO)/src/%.c $(REPO_DEPS) redef.txt
	$(CC) $(URCUFLAGS) -c $< -o $@ && $(POSTPROC) $@

$(BUILD)/s-glue-memb.o: scen/flavor_glue.c scen/flavor.h $(REPO_DEPS) redef.txt
	$(CC) $(SCENFLAGS) -DGLUE_MEMB -c $< -o $@ && $(POSTPROC_SCEN) $@
$(BUILD)/s-glue-mb.o: scen/flavor_glue.c scen/flavor.h $(REPO_DEPS) redef.txt
	$(CC) $(SCENFLAGS) -DGLUE_MB -c $< -o $@ && $(POSTPROC_SCEN) $@
$(BUILD)/s-glue-qsbr.o: scen/flavor_glue.c scen/flavor.h $(REPO_DEPS) redef.txt
	$(CC) $(SCENFLAGS) -DGLUE_QSBR -c $< -o $@ && $(POSTPROC_SCEN) $@
$(BUILD)/s-glue-bp.o: scen/flavor_glue.c scen/flavor.h $(REPO_DEPS) redef.txt
	$(CC) $(SCENFLAGS) -DGLUE_BP -c $< -o $@ && $(POSTPROC_SCEN) $@
$(BUILD)/s-uatomic-builtins.o: scen/uatomic.c $(wildcard scen/*.h) usim/usim.h $(REPO_DEPS) redef.txt
	$(CC) $(SCENFLAGS) -DUAT_BUILTINS -DCONFIG_RCU_USE_ATOMIC_BUILTINS -c $< -o $@ && $(POSTPROC_SCEN) $@
$(BUILD)/s-uatomic-c99.o: scen/uatomic.c $(wildcard scen/*.h) usim/usim.h $(REPO_DEPS) redef.txt
	$(CC) $(SCENFLAGS) -DUAT_C99 -std=gnu99 -c $< -o $@ && $(POSTPROC_SCEN) $@
$(BUILD)/s-%.o: scen/%.c $(wildcard scen/*.h) usim/usim.h $(REPO_DEPS) redef.txt
	$(CC) $(SCENFLAGS) -c $< -o $@ && $(POSTPROC_SCEN) $@

$(BUILD)/usim: $(RT_OBJS) $(URCU_OBJS) $(SCEN_OBJS)
	$(CC) -no-pie -g -o $@ $^ -lpthread

clean:
	rm -rf $(BUILD)
