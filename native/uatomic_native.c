/*
 * uatomic_native.c - hook-free, uninstrumented slice of the C20 check.
 *
 * The simulated `uatomic` scenario compiles <urcu/uatomic.h> with the URCU_VERIF
 * hooks: every read-modify-write is preceded by an opaque call into the simulator.
 * That call is also a compiler barrier, so the instrumented build cannot see what
 * the compiler does with the shipped inline assembly next to ordinary code. This
 * program is built from /repo's headers exactly as an application would build them
 * (optimised, no hooks, no instrumentation), once per implementation (default x86,
 * compiler builtins), and checks the sequential value semantics of every operation
 * on a cell that was initialised by an ordinary assignment in the same function:
 *
 *	*p = init;  uatomic_<op>(p, ...);  return *p;
 *
 * against a plain C model, for every operand width, signed and unsigned, at every
 * aligned offset inside a guarded buffer, on seeded values with width and sign
 * boundaries. One seed = one exactly repeatable sequence of cases.
 *
 * usage: uat-native --seed S --iters N [--only CASEINDEX]
 * prints one line per failing case class (first occurrence) and a summary; exit 1 on failure.
 */
#include <stdio.h>
#include <stdlib.h>
#include <string.h>
#include <stdint.h>
#include <urcu/uatomic.h>

#define NOINL __attribute__((noinline, noclone))

enum { O_SET, O_INC, O_DEC, O_ADD, O_SUB, O_OR, O_AND, O_ADD_RETURN, O_SUB_RETURN, O_XCHG, O_CMPXCHG_OK, O_CMPXCHG_FAIL, O_READ, O_EXPR, O_NOPS };
static const char *const opname[] = { "set", "inc", "dec", "add", "sub", "or", "and", "add_return", "sub_return", "xchg",
	"cmpxchg(match)", "cmpxchg(mismatch)", "read",
	"sign of the value-returning expressions on an address of the form base + index" };

/* one function per (type, op): ordinary store, the operation, ordinary load; *ret = value of the expression, if any */
#define DEFS(T, tn)											\
static NOINL uint64_t f_set_##tn(void *p, uint64_t i, uint64_t v, uint64_t *r)				\
{ T *c = p; *c = (T) i; uatomic_set(c, (T) v); *r = 0; return (uint64_t) *c; }				\
static NOINL uint64_t f_inc_##tn(void *p, uint64_t i, uint64_t v, uint64_t *r)				\
{ T *c = p; (void) v; *c = (T) i; uatomic_inc(c); *r = 0; return (uint64_t) *c; }			\
static NOINL uint64_t f_dec_##tn(void *p, uint64_t i, uint64_t v, uint64_t *r)				\
{ T *c = p; (void) v; *c = (T) i; uatomic_dec(c); *r = 0; return (uint64_t) *c; }			\
static NOINL uint64_t f_add_##tn(void *p, uint64_t i, uint64_t v, uint64_t *r)				\
{ T *c = p; *c = (T) i; uatomic_add(c, (T) v); *r = 0; return (uint64_t) *c; }				\
static NOINL uint64_t f_sub_##tn(void *p, uint64_t i, uint64_t v, uint64_t *r)				\
{ T *c = p; *c = (T) i; uatomic_sub(c, (T) v); *r = 0; return (uint64_t) *c; }				\
static NOINL uint64_t f_or_##tn(void *p, uint64_t i, uint64_t v, uint64_t *r)				\
{ T *c = p; *c = (T) i; uatomic_or(c, (T) v); *r = 0; return (uint64_t) *c; }				\
static NOINL uint64_t f_and_##tn(void *p, uint64_t i, uint64_t v, uint64_t *r)				\
{ T *c = p; *c = (T) i; uatomic_and(c, (T) v); *r = 0; return (uint64_t) *c; }				\
static NOINL uint64_t f_addret_##tn(void *p, uint64_t i, uint64_t v, uint64_t *r)			\
{ T *c = p; *c = (T) i; *r = (uint64_t) (T) uatomic_add_return(c, (T) v); return (uint64_t) *c; }	\
static NOINL uint64_t f_subret_##tn(void *p, uint64_t i, uint64_t v, uint64_t *r)			\
{ T *c = p; *c = (T) i; *r = (uint64_t) (T) uatomic_sub_return(c, (T) v); return (uint64_t) *c; }	\
static NOINL uint64_t f_xchg_##tn(void *p, uint64_t i, uint64_t v, uint64_t *r)			\
{ T *c = p; *c = (T) i; *r = (uint64_t) (T) uatomic_xchg(c, (T) v); return (uint64_t) *c; }		\
static NOINL uint64_t f_cmpok_##tn(void *p, uint64_t i, uint64_t v, uint64_t *r)			\
{ T *c = p; *c = (T) i; *r = (uint64_t) (T) uatomic_cmpxchg(c, (T) i, (T) v); return (uint64_t) *c; }	\
static NOINL uint64_t f_cmpfail_##tn(void *p, uint64_t i, uint64_t v, uint64_t *r)			\
{ T *c = p; *c = (T) i; *r = (uint64_t) (T) uatomic_cmpxchg(c, (T) (i + 1), (T) v); return (uint64_t) *c; } \
static NOINL uint64_t f_read_##tn(void *p, uint64_t i, uint64_t v, uint64_t *r)			\
{ T *c = p; (void) v; *c = (T) i; *r = (uint64_t) (T) uatomic_read(c); return (uint64_t) *c; }		\
/* the value of each value-returning expression, used as it stands on an address of the form base + index, has the	\
 * sign of the cell's type (bit n: operation n disagrees) */							\
static NOINL uint64_t f_expr_##tn(void *p, uint64_t i, uint64_t v, uint64_t *r)			\
{ T *c = p; size_t z = (size_t) (i & 0); unsigned bad = 0; int neg = (T) i < 0;				\
  *c = (T) i;												\
  if ((uatomic_read(c + z) < 0) != neg) bad |= 1;							\
  if ((uatomic_xchg(c + z, (T) i) < 0) != neg) bad |= 2;						\
  if ((uatomic_cmpxchg(c + z, (T) i, (T) i) < 0) != neg) bad |= 4;					\
  if ((uatomic_add_return(c + z, (T) 0) < 0) != neg) bad |= 8;						\
  if ((uatomic_sub_return(c + z, (T) 0) < 0) != neg) bad |= 16;					\
  uatomic_set(c + z, (T) v);										\
  *r = bad; return (uint64_t) *c; }

DEFS(signed char, sc) DEFS(unsigned char, uc) DEFS(short, ss) DEFS(unsigned short, us)
DEFS(int, si) DEFS(unsigned int, ui) DEFS(long, sl) DEFS(unsigned long, ul)

typedef uint64_t (*opfn)(void *, uint64_t, uint64_t, uint64_t *);
#define ROW(tn) { f_set_##tn, f_inc_##tn, f_dec_##tn, f_add_##tn, f_sub_##tn, f_or_##tn, f_and_##tn, \
	f_addret_##tn, f_subret_##tn, f_xchg_##tn, f_cmpok_##tn, f_cmpfail_##tn, f_read_##tn, f_expr_##tn }
static const opfn table[8][O_NOPS] = { ROW(sc), ROW(uc), ROW(ss), ROW(us), ROW(si), ROW(ui), ROW(sl), ROW(ul) };
static const char *const tname[8] = { "signed char", "unsigned char", "short", "unsigned short", "int", "unsigned int", "long", "unsigned long" };
static const int tsize[8] = { 1, 1, 2, 2, 4, 4, 8, 8 };
static const int tsigned[8] = { 1, 0, 1, 0, 1, 0, 1, 0 };

static uint64_t rng;
static uint64_t rnd64(void)
{
	uint64_t z = (rng += 0x9e3779b97f4a7c15ULL);
	z = (z ^ (z >> 30)) * 0xbf58476d1ce4e5b9ULL;
	z = (z ^ (z >> 27)) * 0x94d049bb133111ebULL;
	return z ^ (z >> 31);
}

static uint64_t pickval(int size)
{
	static const uint64_t edge[] = { 0, 1, 2, 0x7f, 0x80, 0x81, 0xff, 0x100, 0x7fff, 0x8000, 0xffff, 0x10000,
		0x7fffffffULL, 0x80000000ULL, 0xffffffffULL, 0x100000000ULL, 0x7fffffffffffffffULL,
		0x8000000000000000ULL, 0xffffffffffffffffULL, 0xfffffffffffffffeULL, 58, 0x55, 0xaa };
	uint64_t r = rnd64();
	(void) size;
	if ((r & 3) == 0)
		return rnd64();
	return edge[(r >> 8) % (sizeof(edge) / sizeof(edge[0]))];
}

/* canonical 64-bit image of a T value: what (uint64_t)(T) x yields */
static uint64_t canon(uint64_t x, int t)
{
	int bits = tsize[t] * 8;
	if (bits == 64)
		return x;
	x &= (1ULL << bits) - 1;
	if (tsigned[t] && (x >> (bits - 1)))
		x |= ~((1ULL << bits) - 1);
	return x;
}

int main(int argc, char **argv)
{
	uint64_t seed = 1;
	long iters = 200000, it, fails = 0;
	int only = -1, a, seen[8][O_NOPS];
	static unsigned char buf[64] __attribute__((aligned(16)));

	memset(seen, 0, sizeof(seen));
	for (a = 1; a < argc; a++) {
		if (!strcmp(argv[a], "--seed") && a + 1 < argc) seed = strtoull(argv[++a], NULL, 0);
		else if (!strcmp(argv[a], "--iters") && a + 1 < argc) iters = atol(argv[++a]);
		else if (!strcmp(argv[a], "--only") && a + 1 < argc) only = atoi(argv[++a]);
	}
	rng = seed * 0x2545f4914f6cdd1dULL + 1;
	for (it = 0; it < iters; it++) {
		int t = (int) (rnd64() % 8), op = (int) (rnd64() % O_NOPS), sz = tsize[t], k;
		int off = 16 + (int) (rnd64() % (16 / sz)) * sz;
		uint64_t init = pickval(sz), v = pickval(sz), ret = 0, got, want, wret = 0, stale = rnd64();
		unsigned char guard = (unsigned char) (0xa5 ^ (it & 0xff));
		int has_ret = 0;

		if (only >= 0 && only != t * O_NOPS + op)
			continue;
		memset(buf, guard, sizeof(buf));
		memcpy(buf + off, &stale, (size_t) sz);	/* what the cell held before the assignment */
		got = table[t][op](buf + off, init, v, &ret);
		switch (op) {
		case O_SET: want = v; break;
		case O_INC: want = init + 1; break;
		case O_DEC: want = init - 1; break;
		case O_ADD: want = init + canon(v, t); break;
		case O_SUB: want = init - canon(v, t); break;
		case O_OR: want = init | v; break;
		case O_AND: want = init & v; break;
		case O_ADD_RETURN: want = init + canon(v, t); wret = want; has_ret = 1; break;
		case O_SUB_RETURN: want = init - canon(v, t); wret = want; has_ret = 1; break;
		case O_XCHG: want = v; wret = init; has_ret = 1; break;
		case O_CMPXCHG_OK: want = v; wret = init; has_ret = 1; break;
		case O_CMPXCHG_FAIL:
			/* (T)(init + 1) differs from (T) init for every width */
			want = init; wret = init; has_ret = 1; break;
		case O_EXPR: want = v; wret = 0; has_ret = 1; break;
		default: want = init; wret = init; has_ret = 1; break;
		}
		want = canon(want, t);
		wret = canon(wret, t);
		for (k = 0; k < (int) sizeof(buf); k++)
			if ((k < off || k >= off + sz) && buf[k] != guard)
				break;
		if (got != want || (has_ret && ret != wret) || k < (int) sizeof(buf)) {
			fails++;
			if (!seen[t][op]++) {
				printf("NATIVE-FAIL case=%d type='%s' op=%s offset=%d init=%#llx operand=%#llx previous_content=%#llx: ",
					t * O_NOPS + op, tname[t], opname[op], off - 16,
					(unsigned long long) canon(init, t), (unsigned long long) canon(v, t),
					(unsigned long long) canon(stale, t));
				if (got != want)
					printf("cell holds %#llx, expected %#llx; ", (unsigned long long) got, (unsigned long long) want);
				if (has_ret && ret != wret && op == O_EXPR)
					printf("'(expression < 0)' disagrees with the sign of the value held by the cell for:%s%s%s%s%s; ",
						(ret & 1) ? " uatomic_read" : "", (ret & 2) ? " uatomic_xchg" : "",
						(ret & 4) ? " uatomic_cmpxchg" : "", (ret & 8) ? " uatomic_add_return" : "",
						(ret & 16) ? " uatomic_sub_return" : "");
				else if (has_ret && ret != wret)
					printf("returned %#llx, expected %#llx; ", (unsigned long long) ret, (unsigned long long) wret);
				if (k < (int) sizeof(buf))
					printf("neighbouring byte at offset %d changed; ", k - off);
				printf("(after an ordinary assignment '*p = init' in the same function)\n");
			}
		}
	}
	printf("NATIVE %s seed=%llu iters=%ld failing_iterations=%ld\n", fails ? "FAILED" : "ok",
		(unsigned long long) seed, iters, fails);
	return fails ? 1 : 0;
}
